#!/bin/bash
# ingest_r3.sh <ID> : confirm the two round-3 seeds of <ID> (in /tmp/seedout_r3_<ID>/{1,2}, worktree /tmp/wt_r3_<ID>)
# and store them as the next free /verif/seeded/<ID>-<n>; prints the names. The "caught by" text is filled in later.
ID=$1; R=${2:-r3}
git -C /tmp/wt_${R}_$ID checkout -q --detach $(git -C /repo rev-parse HEAD) 2>/dev/null
for k in 1 2; do
  [ -f /tmp/seedout_${R}_$ID/$k/patch.diff ] || continue
  n=1; while [ -d /verif/seeded/$ID-$n ]; do n=$((n+1)); done
  SEED_WT=/tmp/wt_${R}_$ID SEED_OUT=/tmp/seedout_${R}_$ID/$k /verif/tools/confirm_seed.sh $ID $k > /dev/null 2>&1
  log=/tmp/seedout_${R}_$ID/$k/confirm.log
  okw=$(grep -c 'rc_without=0' $log); f=$(grep -cE '^(FAIL|--- FAIL|panic)' $log); b=$(grep -c build-ok $log)
  if [ "$okw" = "1" ] && [ "$f" -ge 1 ] && [ "$b" = "1" ]; then
    SEED_OUT=/tmp/seedout_${R}_$ID/$k python3 /verif/tools/save_seed.py $ID $n "pending" >/dev/null && echo "$ID-$n confirmed (r3 seed $k)"
  else
    echo "$ID r3 seed $k NOT confirmed (without=$okw fail=$f build=$b)"
  fi
done
