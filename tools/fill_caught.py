#!/usr/bin/env python3
# fill seeded/<ID>-k/meta.json "caught_by" from run_seeds.sh logs given as arguments (later logs win)
import json,re,sys,os
res={}
for f in sys.argv[1:]:
    for l in open(f):
        m=re.match(r'SEED (\S+): caught by (\S+) \((.*)\)\s*$',l)
        if not m: continue
        obls=[o.strip() for o in re.findall(r'failed obligation: ([^;]+);',m.group(3))]
        if any(o.endswith('/engine') for o in obls): continue
        res[m.group(1)]=(m.group(2),obls)
for s,(chk,obls) in sorted(res.items()):
    p='/verif/seeded/%s/meta.json'%s
    if not os.path.exists(p): continue
    d=json.load(open(p))
    d['caught_by']='%s: %s'%(chk,'; '.join(obls[:4]))
    json.dump(d,open(p,'w'),indent=1)
    print(s,d['caught_by'][:150])
