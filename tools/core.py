#!/usr/bin/env python3
"""core.py query.smt2 : name every top-level assert and print the unsat core (debug helper for vacuity hunts)"""
import sys,re,subprocess
src='\n'.join(l for l in open(sys.argv[1]).read().split('\n') if not l.lstrip().startswith(';'))
out=[];n=0;names={}
# split top-level forms
depth=0;cur='';forms=[]
for ch in src:
    cur+=ch
    if ch=='(':depth+=1
    elif ch==')':
        depth-=1
        if depth==0:
            forms.append(cur.strip());cur=''
res=['(set-option :produce-unsat-cores true)']
for f in forms:
    if f.startswith('(assert '):
        n+=1;names[f'a{n}']=f
        res.append(f'(assert (! {f[8:-1]} :named a{n}))')
    elif f.startswith('(get-model') : pass
    else: res.append(f)
res.append('(get-unsat-core)')
open('/tmp/core_q.smt2','w').write('\n'.join(res))
o=subprocess.run(['z3-new','-T:60','/tmp/core_q.smt2'],capture_output=True,text=True).stdout
print(o.split('\n')[0])
core=re.findall(r'a\d+',o.split('\n',1)[1] if '\n' in o else '')
for a in core: print(a, names[a][:600]); print()
