#!/bin/bash
# confirm_seed.sh <ID> <k> : re-confirm a seeded mutant in the scratch worktree /tmp/wt_<ID>
# (demo fails with patch, passes without; build ok). Writes /tmp/seedout_<ID>/<k>/confirm.log
export GOFLAGS=-mod=mod GOPROXY=off GOSUMDB=off GOTOOLCHAIN=local
ID=$1; K=$2; WT=${SEED_WT:-/tmp/wt_$ID}; OUT=${SEED_OUT:-/tmp/seedout_$ID/$K}
cd $WT || exit 2
git checkout -q -- . ; git clean -fdq
PKG=$(python3 -c "import json;print(json.load(open('$OUT/meta.json'))['demo_package_dir'])")
DEMO=$(ls $OUT/*_test.go | head -1)
cp $DEMO $WT/$PKG/zz_seed_demo_test.go
RACE=$(python3 -c "import json;print('-race' if '-race' in json.load(open('$OUT/meta.json')).get('demo_run_cmd','') else '')")
TESTS=$(grep -oE "^func (Test[A-Za-z0-9_]+)" $DEMO | awk '{print $2}' | paste -sd'|')
{
echo "== demo tests: $TESTS in $PKG"
echo "== without patch"; (cd $WT/$PKG && timeout 900 go test $RACE -vet=off -count=1 -timeout 800s -run "^($TESTS)\$" . 2>&1 | tail -5); echo "rc_without=${PIPESTATUS[0]}"
git apply $OUT/patch.diff || echo "PATCH DOES NOT APPLY"
echo "== with patch"; (cd $WT/$PKG && timeout 900 go test $RACE -vet=off -count=1 -timeout 800s -run "^($TESTS)\$" . 2>&1 | tail -8); 
echo "== build with patch"; (cd $WT/lib && go build ./... && echo build-ok)
} > $OUT/confirm.log 2>&1
rm -f $WT/$PKG/zz_seed_demo_test.go; git checkout -q -- .
tail -30 $OUT/confirm.log
