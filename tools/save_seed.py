#!/usr/bin/env python3
"""save_seed.py <ID> <k> <caught-by text>: store a confirmed seeded mutant under /verif/seeded/<ID>-<k>/"""
import sys, json, os, shutil, glob
ID, k, caught = sys.argv[1], sys.argv[2], sys.argv[3]
import os as _os
src = _os.environ.get("SEED_OUT", f"/tmp/seedout_{ID}/{k}")
dst = f"/verif/seeded/{ID}-{k}"
os.makedirs(dst, exist_ok=True)
shutil.copy(f"{src}/patch.diff", f"{dst}/patch.diff")
for f in glob.glob(f"{src}/*_test.go") + glob.glob(f"{src}/*.go"):
    shutil.copy(f, f"{dst}/" + os.path.basename(f) + ".txt")   # .txt: nothing compiles it here
m = json.load(open(f"{src}/meta.json"))
confirm = open(f"{src}/confirm.log", errors="replace").read() if os.path.exists(f"{src}/confirm.log") else ""
meta = {
  "property": ID,
  "breaks": m.get("what_it_breaks"),
  "needs_to_manifest": m.get("needs_to_manifest"),
  "files_changed": m.get("files_changed"),
  "demo": {"package_dir": m.get("demo_package_dir"), "run_cmd": m.get("demo_run_cmd"),
           "with_patch": m.get("demo_result_with_patch"), "without_patch": m.get("demo_result_without_patch")},
  "produced_by": "independent sub-agent given only the property text and a scratch worktree",
  "what_the_agent_ran": m.get("stable_tests_run"),
  "what_i_ran": "tools/confirm_seed.sh in the scratch worktree: demo passes on the unchanged tree, fails with the patch, go build ./... ok with the patch; then applied to /repo, ran the check, reverted.\n" + confirm[-1500:],
  "caught_by": caught,
}
json.dump(meta, open(f"{dst}/meta.json", "w"), indent=1)
print("saved", dst)
