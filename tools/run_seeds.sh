#!/bin/bash
# run_seeds.sh [ID-k ...] : must-fail corpus. For every seeded mutant under /verif/seeded (or the ones named)
# apply patch.diff to a scratch worktree of /repo's HEAD, run the property's quick check against that tree and
# expect a VIOLATION (exit 1). Prints one line per seed; exit 1 if any seed is missed.
# The scratch worktree lives under ${SEED_WT:-/tmp/seedrun_wt} and is removed at the end.
export GOFLAGS=-mod=mod GOPROXY=off GOSUMDB=off GOTOOLCHAIN=local
cd /verif
WT=${SEED_WT:-/tmp/seedrun_wt_$$}
git -C /repo worktree remove --force $WT 2>/dev/null; rm -rf $WT
git -C /repo worktree add -q --detach $WT HEAD || exit 2
seeds="$@"; [ -z "$seeds" ] && seeds=$(ls seeded)
missed=0
for s in $seeds; do
  id=${s%%-*}
  chk=$(python3 -c "import json;m=json.load(open('seeded/$s/meta.json'));print(m.get('check',m['property']))")
  git -C $WT checkout -q -- . ; git -C $WT clean -fdq
  if ! git -C $WT apply /verif/seeded/$s/patch.diff 2>/dev/null; then echo "SEED $s: skipped (patch does not apply to this tree)"; continue; fi
  out=$(./check $chk --no-evidence --root $WT/lib 2>&1); rc=$?
  v=$(echo "$out" | grep -c '^VIOLATION')
  if [ $rc -ne 0 ] && [ $v -gt 0 ]; then
    echo "SEED $s: caught by $chk ($(echo "$out" | grep 'failed obligation' | head -2 | sed 's/ ::.*//' | tr '\n' ';'))"
  else
    echo "SEED $s: MISSED by $chk (rc=$rc)"; missed=1
  fi
done
git -C /repo worktree remove --force $WT
exit $missed
