#!/bin/bash
# all_checks.sh: run every claimed property's quick check (as vp check does) and print one summary line each
cd /verif
for id in $(python3 -c "import json;print(' '.join(c['property_id'] for c in json.load(open('MANIFEST.json'))['checks']))"); do
  out=$(VERIF_SEED=${VERIF_SEED:-1} ./check $id 2>&1); rc=$?
  echo "rc=$rc $(echo "$out" | grep '^property=' | tail -1)"
  [ $rc -ne 0 ] && echo "$out" | grep -E "VIOLATION|failed obligation" | cut -c1-300
done
