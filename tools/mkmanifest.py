#!/usr/bin/env python3
"""Regenerate /verif/MANIFEST.json from props/*.json (claimed) and tools/not_applicable.json."""
import json, subprocess, glob, os

def hook_commits():
    # every commit of /repo whose message starts with 'verif hook:' (comment-only contract files, build tag verif)
    try:
        out = subprocess.check_output(['git','-C','/repo','log','--format=%H %s'], text=True)
        hs = [l.split()[0] for l in out.splitlines() if l.split(' ',1)[1].startswith('verif hook:')]
        if hs:
            json.dump(hs, open('/verif/tools/hook_commits.json','w'))
            return hs
    except Exception:
        pass
    return json.load(open('/verif/tools/hook_commits.json'))
props = [json.loads(l) for l in open('/verif/properties.jsonl')]
ids = [p['id'] for p in props]
na = json.load(open('/verif/tools/not_applicable.json'))
checks = []
claimed = set()
for f in sorted(glob.glob('/verif/props/C*.json')):
    c = json.load(open(f))
    if not c.get('claimed'):
        continue
    claimed.add(c['id'])
    checks.append({
        "property_id": c['id'],
        "quick_cmd": "/verif/check %s" % c['id'],
        "thorough_cmd": "/verif/check %s --thorough" % c['id'],
        "evidence_file": "/verif/evidence/%s.json" % c['id'],
        "replay_cmd_template": "/verif/check %s --replay {path}" % c['id'],
        "engine": "govc",
        "level_claimed": {"category": "proof", "text": c['level_text'], "design_ref": c.get('design_ref', 'DESIGN.md section 3')},
        "level_note": c['level_note'],
        "technique": c.get('technique', 'contract-based deductive verification: weakest-precondition VCs over go/ssa of the real functions, discharged by z3/cvc5'),
    })
m = {
 "version": 1,
 "setup_cmd": "cd /verif/engine && GOFLAGS=-mod=mod GOPROXY=off GOSUMDB=off GOTOOLCHAIN=local go build -o /verif/bin/govc .",
 "hooks": {"guard": "verif", "enable": "go/packages load with -tags verif (comment-only contracts_verif.go files; no executable hooks)",
           "baseline_off_cmd": "cd /repo/lib && GOFLAGS=-mod=mod GOPROXY=off GOSUMDB=off go test -vet=off -count=1 -timeout 25m ./...",
           "source_commits": hook_commits(), "add_only": True},
 "engines": [{"name": "govc", "path": "/verif/engine", "serves_properties": sorted(claimed),
              "kind_free_text": "VC generator over go/ssa (x/tools v0.29.0) for Gobra-style //@ contracts kept in comment-only contracts_verif.go files in /repo (build tag verif); obligations discharged by z3 4.8.12 / z3 5.1.0 / cvc5 1.0.3"}],
 "checks": checks,
 "not_applicable": [{"property_id": i, "reason": na.get(i, "within the family's reach but not built yet; see DESIGN.md section 7")} for i in ids if i not in claimed],
 "notes": "See DESIGN.md. Every check rebuilds SSA from /repo's working tree on each run; known findings are in /verif/known_findings.json."
}
json.dump(m, open('/verif/MANIFEST.json', 'w'), indent=1)
print("claimed:", sorted(claimed))
