#!/bin/bash
# run every claimed check with several seeds (no evidence written); report any non-zero exit
cd /verif
ids=$(python3 -c "import json;print(' '.join(c['property_id'] for c in json.load(open('MANIFEST.json'))['checks']))")
for seed in ${SEEDS:-1 2 3}; do
  for id in $ids; do
    out=$(VERIF_SEED=$seed /verif/check $id --no-evidence 2>&1); rc=$?
    echo "seed=$seed $id rc=$rc $(echo "$out" | tail -1)"
    if [ $rc -ne 0 ]; then echo "$out" | grep -E "VIOLATION|failed obligation" | head -5; fi
  done
done
