#!/usr/bin/env python3
"""mkproptable.py: rewrite the 'Property by property, as built' table of DESIGN.md from props/*.json, the evidence files and seeded/."""
import json,glob,re,os
desc={
"C18":"statement-level: every encoder/decoder/packer == bit-exact spec function (incl. Integer/Float/Varchar value images, zero padding); order, round-trip, adjacency lemmas for all int32, all non-NaN float32, NUL-free strings, all RIDs",
"C16":"statement-level (sequential): grant iff S/X-compatible, exact effect on the abstract tables, representation invariant, Unlock removes exactly the caller's holdings; release only from Commit/Abort and only after the COMMIT record is durable / the ABORT record is logged; tables only under the mutex",
"C15":"statement-level for one page: every mutator/reader of `TablePage` against an abstract view of the 4096 bytes (read-back, non-interference, non-overlap, header safety, slot reuse, no shrinking in place), all loops with invariants and variants",
"C13":"hit path, flush, unpin, new page, deallocate against ghost disk + page table/frame invariants; failed fetch keeps the frame; recycled ids are logged; clients unpin changed pages dirty (heap operations, hash join); miss path only `latest`/`pinned` (whole-pool invariants after eviction **not** claimed)",
"C14":"every heap/iterator/executor/commit/abort/rebuild function and the hash index return with the pins they were called with (ghost map, all paths, loops)",
"C08":"every `WritePage` call site is reached only with the page's LSN below the durable LSN (incl. interference before a checkpoint blocks the transactions); Commit returns after its record is durable; record framing, body layout and buffer swap of the log manager (functional)",
"C10":"table-id allocation invariant over the real maps incl. catalog reload for any page content; name/oid registration; all column rows scanned; first page of a new table forced to disk; reusable-page set reconstructed exactly per log record",
"C06":"Compare* == native order; expression nodes == standard meaning of children; value images round-trip; `Range.Update` keeps a superset; every candidate access path re-checks all conjuncts; scan/filter executors emit only rows whose predicate evaluated true; sequential and range scans end only at the end; INSERT/UPDATE maintain every index",
"C02":"per-record loser-set bookkeeping of Redo (COMMIT **and ABORT** finish a transaction), Redo re-applies only the matching operation, Undo walks the PrevLSN chain applying exactly the inverse operation, unpins dirty; ABORT logged before locks are released; log always truncated (really emptied) at restart",
"C01":"commit durable before locks are released and before return; mutators stamp the LSN of their record; changed pages unpinned dirty; redo guarded by page LSN, stamps, re-applies only the matching operation; record framing and body layout on both sides; a record is parsed only when completely read; LSNs never regress across restarts; known finding: Redo dereferences an unfetchable page",
"C20":"log truncated only after the recovered pages were flushed and really emptied; truncated log keeps the LSN high-water mark; redo re-application guarded and stamped, pages handed back dirty; graceful-shutdown record only after all pages are flushed",
"C03":"Abort: LIFO, the right inverse heap operation per record kind, index entries deleted / pointed back with exactly the recorded images; write records carry the right images; changed pages unpinned dirty; in-place updates never shrink a row; one statement = one transaction ended exactly once",
"C04":"rows are handed out only under the reader's lock, changed only under the writer's X lock, a refused lock leaves the transaction ABORTED, sequential and range scans cannot skip a row (delete-marked or own-deleted), index entry swap under the exclusive lock, grant rule = C16",
"C05":"C04's lock obligations + release only at transaction end and only after the COMMIT record is durable / the ABORT record is logged",
"C07":"every DML/commit/abort/rebuild step performs the index operation with exactly the right (tuple, rid) on every index; rebuild rows come from the table's own scan; UpdateEntry = remove then add; B-tree re-attached only after graceful stop and every B-tree state written at shutdown; start-up serves only with all indexes rebuilt/attached",
"C09":"start-up ordering and rebuild obligations, graceful record only after the flush, every B-tree state written, catalog reload invariant and completeness, page-reuse set",
"C11":"temporary-page store of the hash join (exact); build table keeps every tuple of a key; hash join emits only the pair whose predicate was just checked; index / nested-loop join consume their whole input; index-join keys resolved against the right schemas; plan equivalence **not** decided",
"C17":"wrappers as multimap (update = remove then add, all three kinds) under the exclusive lock, scan bounds use min/max row id, hash probes operate on the iterator's current slot, skip list node never unlatched changed-but-unversioned",
"C19":"lock discipline (flow-sensitive): log buffer under log latch, pool metadata and dirty flag merge under pool mutex, lock tables under LM mutex, catalog maps under their mutexes, page bytes under page latch, hand-over-hand latching, balanced locking",
}
rows=[]
for pid in ["C18","C16","C15","C13","C14","C08","C10","C06","C02","C01","C20","C03","C04","C05","C07","C09","C11","C17","C19"]:
    c=json.load(open(f'/verif/props/{pid}.json'))
    profs=[c['profile']]
    for p in c.get('parts',[]):
        pc=json.load(open(f'/verif/props/{p}.json')); 
        if pc['profile'] not in profs: profs.append(pc['profile'])
    syn=len(c.get('syntactic',[]))+sum(len(json.load(open(f'/verif/props/{p}.json')).get('syntactic',[])) for p in c.get('parts',[]))
    ob=wall='?'
    try:
        ev=json.load(open(f'/verif/evidence/{pid}.json'))
        txt=json.dumps(ev)
        m=re.search(r'"obligations_generated":\s*(\d+)',txt) or re.search(r'"obligations":\s*(\d+)',txt) or re.search(r'"discharged":\s*(\d+)',txt)
        if m: ob=m.group(1)
        m=re.search(r'"wall_s":\s*([0-9.]+)',txt) or re.search(r'"wall_time_s":\s*([0-9.]+)',txt)
        if m: wall=str(int(float(m.group(1))))+' s'
    except Exception as e: pass
    seeds=len(glob.glob(f'/verif/seeded/{pid}-*'))
    rows.append(f"| {pid} | {' + '.join(profs)}{' + %d syntactic'%syn if syn else ''} | {desc[pid]} | {ob} | {wall} | {seeds}/{seeds} |")
rows.append("| C12 | — | not applicable (goroutines, channels, liveness, real-time order: no per-function contract expresses it; the only contract-sized piece is part `C03_stmt`) | | | |")
table="| id | profiles | what is actually proved | obl. | time | seeds caught |\n|----|----------|-------------------------|------|------|------|\n"+"\n".join(rows)+"\n"
d=open('/verif/DESIGN.md').read()
i=d.index("| id | profiles (parts) |") if "| id | profiles (parts) |" in d else d.index("| id | profiles | what is actually proved")
j=d.index("\n\n",i)
d=d[:i]+table+d[j+1:]
open('/verif/DESIGN.md','w').write(d)
print("ok")
