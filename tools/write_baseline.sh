#!/bin/bash
# maintainer tool: record, for every claimed property, the obligation families discharged on the current (accepted)
# tree in /verif/baseline/<ID>.json. A later violation whose obligation is listed there is reported with
# "discharged_on_accepted_tree": true in its replay file (it passed on the accepted tree and fails now).
cd /verif
for id in $(python3 -c "import json; print(' '.join(c['property_id'] for c in json.load(open('MANIFEST.json'))['checks']))"); do
  out=$(./check $id --write-baseline 2>&1 | tail -1 | cut -c1-160); echo "rc=$? $out"
done
