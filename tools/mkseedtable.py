#!/usr/bin/env python3
"""mkseedtable.py: rewrite the 'Seeded changes' table of DESIGN.md from /verif/seeded/*/meta.json"""
import json,glob,re,os
rows=[]
def key(p):
    m=re.match(r'.*/(C\d+)-(\d+)/meta.json',p); return (m.group(1),int(m.group(2)))
for p in sorted(glob.glob('/verif/seeded/*/meta.json'),key=key):
    m=json.load(open(p)); name=os.path.basename(os.path.dirname(p))
    what=(m.get('breaks') or m.get('what_it_breaks') or '').replace('\n',' ').replace('|','/')
    what=what[:160]+('…' if len(what)>160 else '')
    files=','.join(os.path.basename(f) for f in (m.get('files_changed') or []))
    cb=(m.get('caught_by') or '').replace('|','/')
    rows.append(f"| {name} | `{files}`: {what} | {cb} |")
table="| seed | change | caught by |\n|---|---|---|\n"+"\n".join(rows)+"\n"
d=open('/verif/DESIGN.md').read()
i=d.index("| seed | change | caught by |")
j=d.index("\n### ",i)
d=d[:i]+table+d[j:]
open('/verif/DESIGN.md','w').write(d)
print(len(rows),"seeds")
