package main

// Symbolic values, sorts, heap regions and per-function verification context.

import (
	"fmt"
	"go/types"
	"regexp"
	"sort"
	"strings"

	"golang.org/x/tools/go/ssa"
)

var wordRe = regexp.MustCompile(`\b(byte|rune)\b`)

type Mode int

const (
	ModeInt Mode = iota // every Go integer is a mathematical Int (+ no-wrap obligations)
	ModeBV              // fixed-width (u)int8/16/32/64 are bit-vectors; int/uint/uintptr are Int
)

// Term is one SMT term with its sort and (when known) its Go type.
type Term struct {
	S    string
	Sort string
	T    types.Type
}

// Loc is the address of a struct field, an array/slice element or a map slot;
// it exists only on the Go side (results of FieldAddr / IndexAddr).
type Loc struct {
	Kind   string // "field", "elem"
	Region string
	Ref    string // Int term: object reference (field) or backing-array reference (elem)
	Idx    string // Int term, elem only
	T      types.Type
	Owner  types.Type // field: pointer type of the owning struct
	Parent *Loc       // sub: location of the enclosing by-value struct (an element of a slice of structs)
	Field  int        // sub: field index within Parent's struct type
}

type Tuple []interface{}

// State maps heap/ghost regions to their current SMT term.
type State struct {
	ver    map[string]string
	alloc  string // Int term: next fresh reference
	defers []*ssa.Defer
	names  map[string]Term // Go local variable name -> current value (DebugRef)
	g      string          // current path guard
}

func (s *State) clone() *State {
	n := &State{ver: map[string]string{}, alloc: s.alloc, names: map[string]Term{}, g: s.g}
	for k, v := range s.ver {
		n.ver[k] = v
	}
	for k, v := range s.names {
		n.names[k] = v
	}
	n.defers = append([]*ssa.Defer{}, s.defers...)
	return n
}

// InputTerm: a labelled SMT term of the function's entry state (parameter, field of a pointed-to struct, ...).
type InputTerm struct{ Label, S string }

type Obl struct {
	Name    string
	Kind    string
	Func    string
	Guard   string
	Goal    string
	NFacts  int
	NDecls  int
	Pos     string
	Expect  string // "unsat" for proof obligations, "sat" for covers
	Pre     *Obl   // post-call cover: the cover of the state before the call (solved only if this one is refuted)
	Result  string
	Solver  string
	Time    float64
	Model   string
	Note    string
	Candidate bool // Model is a candidate input found without the quantified prelude axioms (replay decides)
	Src     string
	raw     string
	ctx     *FnCtx
}

type FnCtx struct {
	noPanicIf string // entry-state condition under which no panic may be reached (contract directive nopanic_if)
	eng   *Engine
	fn    *ssa.Function
	c     *Contract
	mode  Mode
	prof  *Profile
	dts   []string // datatype declarations (shared order)
	decls []string
	facts []string
	obls  []*Obl
	nf    int
	vals  map[ssa.Value]interface{}
	regSort map[string]string
	declared map[string]bool
	tfGuard  string // guard under which typeFacts assumes (empty: unconditional)
	inputTerms []InputTerm // entry-state terms whose model values make up a concrete input (for replay)
	entry *State
	letVals map[string]Term
	retNames []string
	loopPhiNames map[*ssa.BasicBlock]map[string]ssa.Value
	inlineDepth int
	curPos string
	errs []string
	nocover bool
	elemRange map[string]string
	nameCount map[string]int
}

func (c *FnCtx) fresh(prefix, srt string) string {
	c.nf++
	name := fmt.Sprintf("%s!%d", sanitize(prefix), c.nf)
	c.decls = append(c.decls, fmt.Sprintf("(declare-const %s %s)", name, srt))
	return name
}

func (c *FnCtx) assume(guard, fact string) {
	if guard == "" || guard == "true" {
		c.facts = append(c.facts, fact)
	} else {
		c.facts = append(c.facts, fmt.Sprintf("(=> %s %s)", guard, fact))
	}
}

// define introduces a named constant equal to term (keeps later terms small).
func (c *FnCtx) define(prefix, srt, term string) string {
	if isAtom(term) {
		return term
	}
	n := c.fresh(prefix, srt)
	c.facts = append(c.facts, fmt.Sprintf("(= %s %s)", n, term))
	return n
}

func isAtom(t string) bool {
	return !strings.ContainsAny(t, " (")
}

func (c *FnCtx) oblige(kind, name, guard, goal, src string) *Obl {
	if c.nameCount == nil {
		c.nameCount = map[string]int{}
	}
	if c.prof != nil {
		switch kind {
		case "bounds", "divzero":
			if c.prof.NoBounds {
				c.assume(guard, goal)
				return &Obl{}
			}
		}
	}
	c.nameCount[name]++
	if n := c.nameCount[name]; n > 1 {
		name = fmt.Sprintf("%s~%d", name, n)
	}
	o := &Obl{Name: name, Kind: kind, Func: c.fnName(), Guard: guard, Goal: goal, NFacts: len(c.facts), NDecls: len(c.decls), Expect: "unsat", Src: src, Pos: c.curPos, ctx: c}
	c.obls = append(c.obls, o)
	return o
}

func (c *FnCtx) fnName() string { return funcKey(c.fn) }

func sanitize(s string) string {
	var b strings.Builder
	for _, r := range s {
		switch {
		case r >= 'a' && r <= 'z', r >= 'A' && r <= 'Z', r >= '0' && r <= '9', r == '_', r == '!', r == '.':
			b.WriteRune(r)
		case r == '*':
			b.WriteString("P")
		case r == '[' || r == ']':
			b.WriteString("_")
		default:
			b.WriteString("_")
		}
	}
	return b.String()
}

// ---------- sorts ----------

const (
	SInt   = "Int"
	SBool  = "Bool"
	SFP32  = "FP32"
	SFP64  = "FP64"
	SSlice = "Slice"
	SIface = "Iface"
)

func bvSort(w int) string { return fmt.Sprintf("(_ BitVec %d)", w) }

func isBV(s string) (int, bool) {
	var w int
	if n, _ := fmt.Sscanf(s, "(_ BitVec %d)", &w); n == 1 {
		return w, true
	}
	return 0, false
}

func intWidth(t types.Type) (w int, signed bool, fixed bool, ok bool) {
	b, isB := t.Underlying().(*types.Basic)
	if !isB {
		return
	}
	switch b.Kind() {
	case types.Int8:
		return 8, true, true, true
	case types.Uint8:
		return 8, false, true, true
	case types.Int16:
		return 16, true, true, true
	case types.Uint16:
		return 16, false, true, true
	case types.Int32:
		return 32, true, true, true
	case types.Uint32:
		return 32, false, true, true
	case types.Int64:
		return 64, true, true, true
	case types.Uint64:
		return 64, false, true, true
	case types.Int:
		return 64, true, false, true
	case types.Uint, types.Uintptr:
		return 64, false, false, true
	case types.UntypedInt, types.UntypedRune:
		return 64, true, false, true
	}
	return
}

func typeKey(t types.Type) string {
	s := types.TypeString(t, func(p *types.Package) string { return p.Name() })
	s = wordRe.ReplaceAllStringFunc(s, func(w string) string {
		switch w {
		case "byte":
			return "uint8"
		case "rune":
			return "int32"
		}
		return w
	})
	return sanitize(s)
}

// sortOf maps a Go type to an SMT sort (declaring datatypes on demand).
func (c *FnCtx) sortOf(t types.Type) string {
	switch u := t.Underlying().(type) {
	case *types.Basic:
		switch {
		case u.Info()&types.IsBoolean != 0:
			return SBool
		case u.Info()&types.IsInteger != 0:
			w, _, fixed, _ := intWidth(t)
			// bit-vector mode: 8/32/64-bit fixed-width integers are bit-vectors; 16-bit
			// integers (only ever used as lengths) and int/uint stay mathematical.
			if c.mode == ModeBV && fixed && w != 16 {
				return bvSort(w)
			}
			return SInt
		case u.Kind() == types.Float32:
			return SFP32
		case u.Kind() == types.Float64 || u.Kind() == types.UntypedFloat:
			return SFP64
		case u.Info()&types.IsString != 0:
			return SInt // canonical string id
		case u.Kind() == types.UnsafePointer:
			return SInt
		case u.Kind() == types.UntypedNil:
			return SInt
		}
	case *types.Pointer, *types.Map, *types.Chan, *types.Signature:
		return SInt
	case *types.Slice:
		return SSlice
	case *types.Interface:
		return SIface
	case *types.Array:
		return fmt.Sprintf("(Array Int %s)", c.sortOf(u.Elem()))
	case *types.Struct:
		return c.structSort(t, u)
	case *types.Tuple:
		return "TUPLE"
	}
	panic(fmt.Sprintf("sortOf: unsupported type %s", t))
}

func (c *FnCtx) structSort(t types.Type, st *types.Struct) string {
	name := "S_" + typeKey(t)
	if c.eng.dtDeclared[name] {
		return name
	}
	c.eng.dtDeclared[name] = true
	var fs []string
	for i := 0; i < st.NumFields(); i++ {
		fs = append(fs, fmt.Sprintf("(%s_%s %s)", name, sanitize(st.Field(i).Name()), c.sortOf(st.Field(i).Type())))
	}
	if len(fs) == 0 {
		fs = append(fs, fmt.Sprintf("(%s_dummy Int)", name))
	}
	c.eng.dtDecls = append(c.eng.dtDecls, fmt.Sprintf("(declare-datatype %s ((mk_%s %s)))", name, name, strings.Join(fs, " ")))
	c.eng.structOf[name] = st
	return name
}

// zero value of a sort
func (c *FnCtx) zero(t types.Type) string {
	srt := c.sortOf(t)
	return c.zeroOfSort(srt, t)
}

func (c *FnCtx) zeroOfSort(srt string, t types.Type) string {
	switch srt {
	case SInt:
		if t != nil {
			if b, ok := t.Underlying().(*types.Basic); ok && b.Info()&types.IsString != 0 {
				return c.eng.strConst("")
			}
		}
		return "0"
	case SBool:
		return "false"
	case SFP32:
		return "((_ to_fp 8 24) #x00000000)"
	case SFP64:
		return "((_ to_fp 11 53) #x0000000000000000)"
	case SSlice:
		return "(mk_Slice 0 0 0 0)"
	case SIface:
		return "(mk_Iface 0 0)"
	}
	if w, ok := isBV(srt); ok {
		return fmt.Sprintf("(_ bv0 %d)", w)
	}
	if strings.HasPrefix(srt, "S_") {
		st := c.eng.structOf[srt]
		var fs []string
		for i := 0; i < st.NumFields(); i++ {
			fs = append(fs, c.zero(st.Field(i).Type()))
		}
		if len(fs) == 0 {
			fs = append(fs, "0")
		}
		return fmt.Sprintf("(mk_%s %s)", srt, strings.Join(fs, " "))
	}
	if strings.HasPrefix(srt, "(Array Int ") {
		el := srt[len("(Array Int ") : len(srt)-1]
		var et types.Type
		if t != nil {
			if a, ok := t.Underlying().(*types.Array); ok {
				et = a.Elem()
			}
		}
		return fmt.Sprintf("((as const %s) %s)", srt, c.zeroOfSort(el, et))
	}
	panic("zeroOfSort: " + srt)
}

// ---------- regions ----------

func (c *FnCtx) regionDecl(name, srt string) {
	if old, ok := c.regSort[name]; ok {
		if old != srt {
			panic(fmt.Sprintf("region %s sort mismatch %s vs %s", name, old, srt))
		}
		return
	}
	c.regSort[name] = srt
	c.decls = append(c.decls, fmt.Sprintf("(declare-const %s@0 %s)", name, srt))
	if rf := c.elemRange[name]; rf != "" {
		c.facts = append(c.facts, fmt.Sprintf(rf, name+"@0", name+"@0", name+"@0", name+"@0"))
	}
}

func (c *FnCtx) get(st *State, region string) string {
	if v, ok := st.ver[region]; ok {
		return v
	}
	if _, ok := c.regSort[region]; !ok {
		panic("region not declared: " + region)
	}
	return region + "@0"
}

func (c *FnCtx) set(st *State, region, term string) {
	st.ver[region] = c.define(region, c.regSort[region], term)
}

func (c *FnCtx) havoc(st *State, region string) {
	n := c.fresh(region, c.regSort[region])
	st.ver[region] = n
	if rf := c.elemRange[region]; rf != "" {
		c.facts = append(c.facts, fmt.Sprintf(rf, n, n, n, n))
	}
}

func (c *FnCtx) fieldRegion(structT types.Type, idx int) (string, types.Type) {
	st := structT.Underlying().(*types.Struct)
	f := st.Field(idx)
	name := "F_" + typeKey(structT) + "_" + sanitize(f.Name())
	srt := fmt.Sprintf("(Array Int %s)", c.sortOf(f.Type()))
	c.regionDecl(name, srt)
	return name, f.Type()
}

func (c *FnCtx) elemRegion(elemT types.Type) string {
	name := "A_" + typeKey(elemT)
	srt := fmt.Sprintf("(Array Int (Array Int %s))", c.sortOf(elemT))
	if c.elemRange == nil {
		c.elemRange = map[string]string{}
	}
	if _, seen := c.regSort[name]; !seen && c.sortOf(elemT) == SInt && name == "A_uint8" {
		// only byte arrays: page images are reasoned about wholesale; other element types get
		// their range facts at each load (a quantified axiom per region slows every query down)
		if lo, hi, ok := intRange(elemT); ok {
			// type invariant of every element of every array of this element type
			c.elemRange[name] = "(forall ((q_r Int) (q_j Int)) (! (and (<= " + lo + " (select (select %s q_r) q_j)) (<= (select (select %s q_r) q_j) " + hi + ")) :pattern ((select (select %s q_r) q_j))))%.0s"
		}
	}
	c.regionDecl(name, srt)
	return name
}

func (c *FnCtx) cellRegion(t types.Type) string {
	name := "C_" + typeKey(t)
	srt := fmt.Sprintf("(Array Int %s)", c.sortOf(t))
	c.regionDecl(name, srt)
	return name
}

func (c *FnCtx) mapRegions(mt *types.Map) (dom, val string) {
	k := typeKey(mt.Key()) + "__" + typeKey(mt.Elem())
	dom = "MD_" + k
	val = "MV_" + k
	c.regionDecl(dom, fmt.Sprintf("(Array Int (Array %s Bool))", c.sortOf(mt.Key())))
	c.regionDecl(val, fmt.Sprintf("(Array Int (Array %s %s))", c.sortOf(mt.Key()), c.sortOf(mt.Elem())))
	return
}

func (c *FnCtx) ghostRegion(name string) (string, bool) {
	g, ok := c.eng.ghosts[name]
	if !ok {
		return "", false
	}
	c.regionDecl("G_"+name, g)
	return "G_" + name, true
}

// isWrapper reports whether struct type t has exactly one field which is an
// embedded struct (TablePage{page.Page}); pointers to it are identified with
// pointers to the inner struct (the unsafe casts in the repository rely on this).
func isWrapper(t types.Type) (types.Type, bool) {
	st, ok := t.Underlying().(*types.Struct)
	if !ok || st.NumFields() != 1 {
		return nil, false
	}
	f := st.Field(0)
	if _, ok := f.Type().Underlying().(*types.Struct); ok && f.Embedded() {
		return f.Type(), true
	}
	return nil, false
}

func derefT(t types.Type) types.Type {
	if p, ok := t.Underlying().(*types.Pointer); ok {
		return p.Elem()
	}
	panic("derefT: not a pointer: " + t.String())
}

// loadPtr reads the value a pointer Term points to.
func (c *FnCtx) loadPtr(st *State, p Term, pointee types.Type) Term {
	switch u := pointee.Underlying().(type) {
	case *types.Struct:
		if inner, ok := isWrapper(pointee); ok {
			iv := c.loadPtr(st, p, inner)
			return Term{S: fmt.Sprintf("(mk_%s %s)", c.sortOf(pointee), iv.S), Sort: c.sortOf(pointee), T: pointee}
		}
		srt := c.structSort(pointee, u)
		var fs []string
		for i := 0; i < u.NumFields(); i++ {
			fs = append(fs, c.loadField(st, p.S, pointee, i).S)
		}
		if len(fs) == 0 {
			fs = append(fs, "0")
		}
		return Term{S: fmt.Sprintf("(mk_%s %s)", srt, strings.Join(fs, " ")), Sort: srt, T: pointee}
	case *types.Array:
		r := c.elemRegion(u.Elem())
		return Term{S: fmt.Sprintf("(select %s %s)", c.get(st, r), p.S), Sort: c.sortOf(pointee), T: pointee}
	default:
		r := c.cellRegion(pointee)
		return Term{S: fmt.Sprintf("(select %s %s)", c.get(st, r), p.S), Sort: c.sortOf(pointee), T: pointee}
	}
}

func (c *FnCtx) loadField(st *State, ref string, structT types.Type, i int) Term {
	su := structT.Underlying().(*types.Struct)
	ft := su.Field(i).Type()
	switch ft.Underlying().(type) {
	case *types.Struct, *types.Array:
		// by-value nested aggregate: lives at a derived reference
		return c.loadPtr(st, Term{S: subRef(ref, i), Sort: SInt}, ft)
	}
	r, _ := c.fieldRegion(structT, i)
	return Term{S: fmt.Sprintf("(select %s %s)", c.get(st, r), ref), Sort: c.sortOf(ft), T: ft}
}

func (c *FnCtx) storePtr(st *State, p Term, pointee types.Type, v Term) {
	switch u := pointee.Underlying().(type) {
	case *types.Struct:
		if inner, ok := isWrapper(pointee); ok {
			srt := c.sortOf(pointee)
			f0 := fmt.Sprintf("(%s_%s %s)", srt, sanitize(u.Field(0).Name()), v.S)
			c.storePtr(st, p, inner, Term{S: f0, Sort: c.sortOf(inner), T: inner})
			return
		}
		srt := c.structSort(pointee, u)
		for i := 0; i < u.NumFields(); i++ {
			ft := u.Field(i).Type()
			fv := fmt.Sprintf("(%s_%s %s)", srt, sanitize(u.Field(i).Name()), v.S)
			switch ft.Underlying().(type) {
			case *types.Struct, *types.Array:
				c.storePtr(st, Term{S: subRef(p.S, i), Sort: SInt}, ft, Term{S: fv, Sort: c.sortOf(ft), T: ft})
				continue
			}
			r, _ := c.fieldRegion(pointee, i)
			c.set(st, r, fmt.Sprintf("(store %s %s %s)", c.get(st, r), p.S, fv))
		}
	case *types.Array:
		r := c.elemRegion(u.Elem())
		c.set(st, r, fmt.Sprintf("(store %s %s %s)", c.get(st, r), p.S, v.S))
	default:
		r := c.cellRegion(pointee)
		c.set(st, r, fmt.Sprintf("(store %s %s %s)", c.get(st, r), p.S, v.S))
	}
}

func (c *FnCtx) loadLoc(st *State, l *Loc) Term {
	switch l.Kind {
	case "field":
		return Term{S: fmt.Sprintf("(select %s %s)", c.get(st, l.Region), l.Ref), Sort: c.sortOf(l.T), T: l.T}
	case "elem":
		return Term{S: fmt.Sprintf("(select (select %s %s) %s)", c.get(st, l.Region), l.Ref, l.Idx), Sort: c.sortOf(l.T), T: l.T}
	case "sub":
		// field of a by-value struct stored in an element: read the struct, select the field
		pv := c.loadLoc(st, l.Parent)
		su := l.Parent.T.Underlying().(*types.Struct)
		return Term{S: fmt.Sprintf("(%s_%s %s)", c.sortOf(l.Parent.T), sanitize(su.Field(l.Field).Name()), pv.S), Sort: c.sortOf(l.T), T: l.T}
	}
	panic("loadLoc " + l.Kind)
}

func (c *FnCtx) storeLoc(st *State, l *Loc, v Term) {
	switch l.Kind {
	case "field":
		c.set(st, l.Region, fmt.Sprintf("(store %s %s %s)", c.get(st, l.Region), l.Ref, v.S))
	case "elem":
		cur := c.get(st, l.Region)
		c.set(st, l.Region, fmt.Sprintf("(store %s %s (store (select %s %s) %s %s))", cur, l.Ref, cur, l.Ref, l.Idx, v.S))
	case "sub":
		// rebuild the enclosing struct value with this field replaced and store it back
		pv := c.loadLoc(st, l.Parent)
		su := l.Parent.T.Underlying().(*types.Struct)
		srt := c.sortOf(l.Parent.T)
		var fs []string
		for i := 0; i < su.NumFields(); i++ {
			if i == l.Field {
				fs = append(fs, v.S)
			} else {
				fs = append(fs, fmt.Sprintf("(%s_%s %s)", srt, sanitize(su.Field(i).Name()), pv.S))
			}
		}
		c.storeLoc(st, l.Parent, Term{S: fmt.Sprintf("(mk_%s %s)", srt, strings.Join(fs, " ")), Sort: srt, T: l.Parent.T})
	default:
		panic("storeLoc " + l.Kind)
	}
}

// newRef allocates a fresh object reference.
func (c *FnCtx) newRef(st *State, guard string) string {
	r := c.fresh("ref", SInt)
	c.assume("", fmt.Sprintf("(= %s %s)", r, st.alloc))
	na := c.fresh("alloc", SInt)
	c.assume("", fmt.Sprintf("(= %s (+ %s 1))", na, st.alloc))
	st.alloc = na
	return r
}

// ---------- slices ----------

func slArr(s string) string { return "(sl_arr " + s + ")" }
func slOff(s string) string { return "(sl_off " + s + ")" }
func slLen(s string) string { return "(sl_len " + s + ")" }
func slCap(s string) string { return "(sl_cap " + s + ")" }
func mkSlice(a, o, l, cp string) string {
	return fmt.Sprintf("(mk_Slice %s %s %s %s)", a, o, l, cp)
}

func add(a, b string) string {
	if b == "0" {
		return a
	}
	if a == "0" {
		return b
	}
	return fmt.Sprintf("(+ %s %s)", a, b)
}
func sub(a, b string) string {
	if b == "0" {
		return a
	}
	return fmt.Sprintf("(- %s %s)", a, b)
}

func sortedKeys(m map[string]string) []string {
	var ks []string
	for k := range m {
		ks = append(ks, k)
	}
	sort.Strings(ks)
	return ks
}

func funcKey(f *ssa.Function) string {
	if f == nil {
		return "<nil>"
	}
	pkg := ""
	if f.Pkg != nil {
		pkg = f.Pkg.Pkg.Path()
	} else if f.Object() != nil && f.Object().Pkg() != nil {
		pkg = f.Object().Pkg().Path()
	}
	name := f.Name()
	if recv := f.Signature.Recv(); recv != nil {
		rt := recv.Type()
		if p, ok := rt.(*types.Pointer); ok {
			rt = p.Elem()
		}
		if n, ok := rt.(*types.Named); ok {
			name = n.Obj().Name() + "." + name
		}
	}
	return pkg + "::" + name
}
