package main

// Block driver: loop cutting, guards, state merging, invariants, returns.

import (
	"fmt"
	"go/token"
	"go/types"
	"sort"
	"strings"

	"golang.org/x/tools/go/ssa"
)

type engineErr struct{ msg string }

func (c *FnCtx) fail(format string, a ...interface{}) {
	panic(engineErr{fmt.Sprintf(format, a...)})
}

type frame struct {
	fn        *ssa.Function
	con       *Contract
	out       map[*ssa.BasicBlock]*State
	guard     map[*ssa.BasicBlock]string
	edge      map[[2]*ssa.BasicBlock]string
	loops     map[*ssa.BasicBlock]*loopInfo
	order     []*ssa.BasicBlock
	retGuards []string
	retStates []*State
	retVals   [][]Term
	retPos    []string
	top       bool
	oldState  *State
	params    map[string]Term
	lets      map[string]Term
	closure   map[ssa.Value]interface{}
	modWhole  map[string]bool     // top-level modifies: whole regions
	modRefs   map[string][]string // top-level modifies: region -> refs
	modKnown  bool
	mayPanic  bool
	atCallSeen map[string]int
}

type loopInfo struct {
	header  *ssa.BasicBlock
	ordinal int
	body    map[*ssa.BasicBlock]bool
	spec    *LoopSpec
	hdrSt   *State // state right after havoc (for body_ensures/decreases)
	dec0    string
	phiTerm map[*ssa.Phi]Term
	frameRegs []string
	lets map[string]Term
	explicit bool // the specification was written for this loop (not the profile's automatic invariant)
}

func isBackEdge(u, h *ssa.BasicBlock) bool { return h.Dominates(u) }

func (c *FnCtx) findLoops(fn *ssa.Function) map[*ssa.BasicBlock]*loopInfo {
	loops := map[*ssa.BasicBlock]*loopInfo{}
	for _, b := range fn.Blocks {
		for _, s := range b.Succs {
			if isBackEdge(b, s) {
				li := loops[s]
				if li == nil {
					li = &loopInfo{header: s, body: map[*ssa.BasicBlock]bool{s: true}}
					loops[s] = li
				}
				// natural loop: nodes reaching b without passing through s
				stack := []*ssa.BasicBlock{b}
				for len(stack) > 0 {
					n := stack[len(stack)-1]
					stack = stack[:len(stack)-1]
					if li.body[n] {
						continue
					}
					li.body[n] = true
					for _, p := range n.Preds {
						stack = append(stack, p)
					}
				}
			}
		}
	}
	// ordinals by source position of the header's first positioned instruction,
	// falling back to block index
	var hs []*ssa.BasicBlock
	for h := range loops {
		hs = append(hs, h)
	}
	sort.Slice(hs, func(i, j int) bool {
		pi, pj := loopPos(loops[hs[i]]), loopPos(loops[hs[j]])
		if pi != pj {
			return pi < pj
		}
		return hs[i].Index < hs[j].Index
	})
	for i, h := range hs {
		loops[h].ordinal = i
	}
	return loops
}

func loopPos(li *loopInfo) token.Pos {
	best := token.Pos(1 << 60)
	for b := range li.body {
		for _, ins := range b.Instrs {
			if p := ins.Pos(); p.IsValid() && p < best {
				best = p
			}
		}
	}
	return best
}

func rpo(fn *ssa.Function) []*ssa.BasicBlock {
	seen := map[*ssa.BasicBlock]bool{}
	var post []*ssa.BasicBlock
	var dfs func(b *ssa.BasicBlock)
	dfs = func(b *ssa.BasicBlock) {
		seen[b] = true
		for _, s := range b.Succs {
			if !seen[s] && !isBackEdge(b, s) {
				dfs(s)
			}
		}
		post = append(post, b)
	}
	dfs(fn.Blocks[0])
	for i, j := 0, len(post)-1; i < j; i, j = i+1, j-1 {
		post[i], post[j] = post[j], post[i]
	}
	return post
}

// writeSet computes the regions a loop body may modify (names), or all=true.
func (c *FnCtx) loopWriteSet(fr *frame, li *loopInfo) (regs map[string]bool, all bool) {
	regs = map[string]bool{}
	for b := range li.body {
		for _, ins := range b.Instrs {
			switch x := ins.(type) {
			case *ssa.Store:
				for _, r := range c.storeRegions(x.Addr) {
					regs[r] = true
				}
			case *ssa.MapUpdate:
				mt := x.Map.Type().Underlying().(*types.Map)
				d, v := c.mapRegions(mt)
				regs[d], regs[v] = true, true
			case ssa.CallInstruction:
				rs, a := c.callWriteSet(x.Common())
				if a {
					all = true
				}
				for _, r := range rs {
					regs[r] = true
				}
			}
		}
	}
	return
}

// storeRegions: which regions can a store through this address touch (static).
func (c *FnCtx) storeRegions(addr ssa.Value) []string {
	switch a := addr.(type) {
	case *ssa.FieldAddr:
		st := derefT(a.X.Type())
		if inner, ok := isWrapper(st); ok && a.Field == 0 {
			_ = inner
			return nil
		}
		ft := st.Underlying().(*types.Struct).Field(a.Field).Type()
		return c.regionsOfValueAt(st, a.Field, ft)
	case *ssa.IndexAddr:
		var et types.Type
		switch u := a.X.Type().Underlying().(type) {
		case *types.Slice:
			et = u.Elem()
		case *types.Pointer:
			et = u.Elem().Underlying().(*types.Array).Elem()
		}
		return []string{c.elemRegion(et)}
	case *ssa.Alloc:
		if isPrivateAlloc(a) {
			return []string{c.localRegion(a)}
		}
		return c.regionsOfPointee(derefT(addr.Type()))
	case *ssa.FreeVar:
		// captured private local of the enclosing function: resolved when the closure is inlined
		return nil
	default:
		return c.regionsOfPointee(derefT(addr.Type()))
	}
}

func (c *FnCtx) regionsOfValueAt(st types.Type, idx int, ft types.Type) []string {
	switch ft.Underlying().(type) {
	case *types.Struct, *types.Array:
		return c.regionsOfPointee(ft)
	}
	r, _ := c.fieldRegion(st, idx)
	return []string{r}
}

func (c *FnCtx) regionsOfPointee(t types.Type) []string {
	switch u := t.Underlying().(type) {
	case *types.Struct:
		if inner, ok := isWrapper(t); ok {
			return c.regionsOfPointee(inner)
		}
		var out []string
		for i := 0; i < u.NumFields(); i++ {
			out = append(out, c.regionsOfValueAt(t, i, u.Field(i).Type())...)
		}
		return out
	case *types.Array:
		return []string{c.elemRegion(u.Elem())}
	default:
		return []string{c.cellRegion(t)}
	}
}

// execFunction symbolically executes fn from the given state/guard.
func (c *FnCtx) execFunction(fr *frame, st0 *State, g0 string) {
	fn := fr.fn
	if len(fn.Blocks) == 0 {
		c.fail("function %s has no body", fn)
	}
	fr.out = map[*ssa.BasicBlock]*State{}
	fr.guard = map[*ssa.BasicBlock]string{}
	fr.edge = map[[2]*ssa.BasicBlock]string{}
	fr.loops = c.findLoops(fn)
	if fr.con != nil {
		for k := range fr.con.Loops {
			found := false
			for _, li := range fr.loops {
				if li.ordinal == k {
					found = true
				}
			}
			if !found {
				c.fail("contract unbound: loop %d of %s does not exist", k, funcKey(fn))
			}
		}
	}
	for _, li := range fr.loops {
		if fr.con != nil {
			li.spec = fr.con.Loops[li.ordinal]
			li.explicit = li.spec != nil
		}
		if li.spec == nil && len(c.prof.AutoLoopInv) > 0 {
			li.spec = &LoopSpec{Inv: c.prof.AutoLoopInv}
		}
		// single-entry check
		for b := range li.body {
			if b == li.header {
				continue
			}
			for _, p := range b.Preds {
				if !li.body[p] {
					c.fail("irreducible loop in %s", funcKey(fn))
				}
			}
		}
	}
	fr.order = rpo(fn)
	for _, b := range fr.order {
		c.execBlock(fr, b, st0, g0)
	}
}

func (c *FnCtx) execBlock(fr *frame, b *ssa.BasicBlock, st0 *State, g0 string) {
	var st *State
	var guard string
	type inEdge struct {
		p    *ssa.BasicBlock
		cond string
	}
	var ins []inEdge
	if b.Index == 0 {
		st = st0.clone()
		guard = g0
	} else {
		for _, p := range b.Preds {
			if isBackEdge(p, b) {
				continue
			}
			if e, ok := fr.edge[[2]*ssa.BasicBlock{p, b}]; ok {
				ins = append(ins, inEdge{p, e})
			}
		}
		if len(ins) == 0 {
			return // unreachable (pruned)
		}
		if len(ins) == 1 {
			st = fr.out[ins[0].p].clone()
			guard = ins[0].cond
		} else {
			var conds []string
			for _, e := range ins {
				conds = append(conds, e.cond)
			}
			guard = c.define("g", SBool, "(or "+strings.Join(conds, " ")+")")
			// merge states
			st = fr.out[ins[0].p].clone()
			keys := map[string]bool{}
			for _, e := range ins {
				for k := range fr.out[e.p].ver {
					keys[k] = true
				}
			}
			var ks []string
			for k := range keys {
				ks = append(ks, k)
			}
			sort.Strings(ks)
			for _, k := range ks {
				same := true
				v0 := c.get(fr.out[ins[0].p], k)
				for _, e := range ins[1:] {
					if c.get(fr.out[e.p], k) != v0 {
						same = false
					}
				}
				if same {
					st.ver[k] = v0
					continue
				}
				nv := c.fresh(k, c.regSort[k])
				for _, e := range ins {
					c.assume(e.cond, fmt.Sprintf("(= %s %s)", nv, c.get(fr.out[e.p], k)))
				}
				st.ver[k] = nv
			}
			sameAlloc := true
			for _, e := range ins[1:] {
				if fr.out[e.p].alloc != st.alloc {
					sameAlloc = false
				}
			}
			if !sameAlloc {
				na := c.fresh("alloc", SInt)
				for _, e := range ins {
					c.assume(e.cond, fmt.Sprintf("(= %s %s)", na, fr.out[e.p].alloc))
				}
				st.alloc = na
			}
			// names bound by `capture` survive joins: a fresh value equal to the captured one on every incoming
			// edge that has it (unconstrained on edges where the callee was not called)
			capMerged := map[string]Term{}
			if fr.top && fr.con != nil {
				for _, css := range fr.con.Capture {
					for _, cs := range css {
						var have *Term
						differ := false
						for _, e := range ins {
							if w, ok := fr.out[e.p].names[cs.Name]; ok {
								if have == nil {
									ww := w
									have = &ww
								} else if have.S != w.S {
									differ = true
								}
							} else {
								differ = true
							}
						}
						if have == nil || !differ {
							continue
						}
						nv := c.fresh("cap_"+cs.Name, have.Sort)
						for _, e := range ins {
							if w, ok := fr.out[e.p].names[cs.Name]; ok {
								c.assume(e.cond, fmt.Sprintf("(= %s %s)", nv, w.S))
							}
						}
						capMerged[cs.Name] = Term{S: nv, Sort: have.Sort, T: have.T}
					}
				}
			}
			for k, v := range st.names {
				for _, e := range ins[1:] {
					if w, ok := fr.out[e.p].names[k]; !ok || w.S != v.S {
						delete(st.names, k)
						break
					}
				}
			}
			for k, v := range capMerged {
				st.names[k] = v
			}
			for _, e := range ins[1:] {
				if len(fr.out[e.p].defers) != len(st.defers) {
					c.fail("defer stacks differ at join in %s", funcKey(fr.fn))
				}
			}
		}
		// phis
		for _, instr := range b.Instrs {
			phi, ok := instr.(*ssa.Phi)
			if !ok {
				break
			}
			var vals []interface{}
			var conds []string
			for _, e := range ins {
				for i, p := range b.Preds {
					if p == e.p {
						vals = append(vals, c.valIn(fr, phi.Edges[i]))
						conds = append(conds, e.cond)
						break
					}
				}
			}
			c.setVal(fr, phi, c.mergeVals(phi, vals, conds))
		}
	}
	fr.guard[b] = guard
	st.g = guard

	if li := fr.loops[b]; li != nil {
		c.loopHeader(fr, b, li, st, guard)
	}

	for _, instr := range b.Instrs {
		if _, ok := instr.(*ssa.Phi); ok {
			continue
		}
		if p := instr.Pos(); p.IsValid() {
			c.curPos = c.eng.prog.Fset.Position(p).String()
		}
		switch x := instr.(type) {
		case *ssa.If:
			cond := c.val(fr, x.Cond)
			if k, ok := x.Cond.(*ssa.Const); ok {
				_ = k
			}
			fr.out[b] = st
			guard = st.g
			switch cond.S {
			case "true":
				c.setEdge(fr, b, b.Succs[0], guard, st)
			case "false":
				c.setEdge(fr, b, b.Succs[1], guard, st)
			default:
				cn := c.define("c", SBool, cond.S)
				c.setEdge(fr, b, b.Succs[0], c.define("e", SBool, fmt.Sprintf("(and %s %s)", guard, cn)), st)
				c.setEdge(fr, b, b.Succs[1], c.define("e", SBool, fmt.Sprintf("(and %s (not %s))", guard, cn)), st)
			}
			return
		case *ssa.Jump:
			fr.out[b] = st
			c.setEdge(fr, b, b.Succs[0], st.g, st)
			return
		case *ssa.Return:
			var rs []Term
			for _, r := range x.Results {
				rs = append(rs, c.val(fr, r))
			}
			fr.retGuards = append(fr.retGuards, st.g)
			fr.retPos = append(fr.retPos, c.curPos)
			fr.retStates = append(fr.retStates, st)
			fr.retVals = append(fr.retVals, rs)
			fr.out[b] = st
			return
		case *ssa.Panic:
			c.panicAt(fr, st.g, "explicit panic")
			fr.out[b] = st
			return
		default:
			c.execInstr(fr, st, st.g, instr)
		}
	}
	fr.out[b] = st
}

func (c *FnCtx) panicAt(fr *frame, guard, what string) {
	mayPanic := fr.mayPanic
	if fr.con != nil && fr.con.MayPanic {
		mayPanic = true
	}
	if c.prof.IgnorePanics {
		mayPanic = true
	}
	if !mayPanic {
		c.oblige("nopanic", fmt.Sprintf("nopanic@%s", shortPos(c.curPos)), guard, "false", what)
	} else if c.noPanicIf != "" && !c.prof.IgnorePanics {
		c.oblige("nopanic", fmt.Sprintf("nopanic_if@%s", shortPos(c.curPos)), guard, "(not "+c.noPanicIf+")", what+" (must be unreachable when the nopanic_if condition held at entry)")
	}
}

func shortPos(p string) string {
	if i := strings.LastIndex(p, "/"); i >= 0 {
		p = p[i+1:]
	}
	// drop column
	parts := strings.Split(p, ":")
	if len(parts) >= 2 {
		return parts[0] + ":" + parts[1]
	}
	return p
}

func (c *FnCtx) setEdge(fr *frame, from, to *ssa.BasicBlock, cond string, st *State) {
	if isBackEdge(from, to) {
		c.backEdge(fr, from, to, cond, st)
		return
	}
	fr.edge[[2]*ssa.BasicBlock{from, to}] = cond
}

func (c *FnCtx) mergeVals(phi *ssa.Phi, vals []interface{}, conds []string) interface{} {
	if len(vals) == 0 {
		c.fail("phi without live edges")
	}
	same := true
	for _, v := range vals[1:] {
		if !sameVal(v, vals[0]) {
			same = false
		}
	}
	if same {
		return vals[0]
	}
	t0, ok := vals[0].(Term)
	if !ok {
		c.fail("cannot merge non-term values at phi %s in %s", phi.Name(), funcKey(phi.Parent()))
	}
	n := c.fresh("phi_"+phi.Comment, t0.Sort)
	for i, v := range vals {
		t, ok := v.(Term)
		if !ok {
			c.fail("cannot merge non-term values at phi %s", phi.Name())
		}
		c.assume(conds[i], fmt.Sprintf("(= %s %s)", n, t.S))
	}
	return Term{S: n, Sort: t0.Sort, T: phi.Type()}
}

func sameVal(a, b interface{}) bool {
	ta, ok1 := a.(Term)
	tb, ok2 := b.(Term)
	if ok1 && ok2 {
		return ta.S == tb.S
	}
	la, ok1 := a.(*Loc)
	lb, ok2 := b.(*Loc)
	if ok1 && ok2 {
		return *la == *lb
	}
	return false
}

// ---------- loops ----------

func (c *FnCtx) loopEnv(fr *frame, li *loopInfo, st *State, phiVals map[string]Term) *Env {
	env := c.newEnv(fr, st)
	env.names = map[string]Term{}
	for k, v := range st.names {
		env.names[k] = v
	}
	for k, v := range phiVals {
		env.names[k] = v
	}
	if len(li.lets) > 0 {
		nl := map[string]Term{}
		for k, v := range env.lets {
			nl[k] = v
		}
		for k, v := range li.lets {
			nl[k] = v
		}
		env.lets = nl
	}
	return env
}

func (c *FnCtx) loopHeader(fr *frame, b *ssa.BasicBlock, li *loopInfo, st *State, guard string) {
	name := fmt.Sprintf("loop.%d", li.ordinal)
	// entry values of phis
	entry := map[string]Term{}
	var phis []*ssa.Phi
	for _, instr := range b.Instrs {
		phi, ok := instr.(*ssa.Phi)
		if !ok {
			break
		}
		phis = append(phis, phi)
		if t, ok := c.valIn(fr, phi).(Term); ok && phi.Comment != "" {
			entry[phi.Comment] = t
		}
	}
	if li.spec != nil {
		env := c.loopEnv(fr, li, st, entry)
		li.lets = map[string]Term{}
		for _, l := range li.spec.Lets {
			t := env.eval(l.E, "")
			t.S = c.define("ll_"+l.Label, t.Sort, t.S)
			li.lets[l.Label] = t
		}
		env = c.loopEnv(fr, li, st, entry)
		for i, inv := range li.spec.Inv {
			t := c.evalBool(env, inv.E)
			c.oblige("inv-entry", fmt.Sprintf("inv-entry#%s.%s", name, clauseName(inv, i)), guard, t, inv.Src)
		}
		for i, en := range li.spec.Entry {
			t := c.evalBool(env, en.E)
			c.oblige("inv-entry", fmt.Sprintf("loop-entry#%s.%s", name, clauseName(en, i)), guard, t, en.Src)
		}
	}
	// havoc
	regs, all := c.loopWriteSet(fr, li)
	if li.spec != nil {
		for _, m := range li.spec.Mods {
			for _, r := range c.modRegions(c.newEnv(fr, st), m) {
				regs[r] = true
			}
		}
	}
	if all {
		for k := range c.regSort {
			if c.prof.isTracked(k) || strings.HasPrefix(k, "L_") {
				continue // (private locals are written only by the stores collected above)
			}
			regs[k] = true
		}
	}
	var rk []string
	for r := range regs {
		rk = append(rk, r)
	}
	sort.Strings(rk)
	for _, r := range rk {
		c.havoc(st, r)
	}
	na := c.fresh("alloc", SInt)
	c.assume("", fmt.Sprintf("(>= %s %s)", na, st.alloc))
	st.alloc = na
	li.phiTerm = map[*ssa.Phi]Term{}
	hv := map[string]Term{}
	for _, phi := range phis {
		old := c.valIn(fr, phi)
		t, ok := old.(Term)
		if !ok {
			c.fail("loop phi %s is not a term", phi.Name())
		}
		nt := Term{S: c.fresh("lp_"+phi.Comment, t.Sort), Sort: t.Sort, T: phi.Type()}
		c.typeFacts(st, nt, phi.Type())
		c.setVal(fr, phi, nt)
		li.phiTerm[phi] = nt
		if phi.Comment != "" {
			hv[phi.Comment] = nt
			st.names[phi.Comment] = nt
		}
	}
	// implicit frame invariant: locations outside the function's modifies clause keep their entry value
	li.frameRegs = nil
	if fr.modKnown {
		for _, r := range rk {
			if ft, ok := c.frameTerm(fr, st, r); ok {
				c.assume(guard, ft)
				li.frameRegs = append(li.frameRegs, r)
			}
		}
	}
	li.hdrSt = st.clone()
	if li.spec != nil {
		env := c.loopEnv(fr, li, st, hv)
		for _, inv := range li.spec.Inv {
			c.assume(guard, c.evalBool(env, inv.E))
		}
		if li.spec.Dec != nil {
			li.dec0 = c.define("dec", SInt, c.evalInt(env, li.spec.Dec))
		}
		// cover: invariant + guard satisfiable
		if !c.nocover {
			o := c.oblige("cover", fmt.Sprintf("cover#%s", name), guard, "false", "loop invariant reachable")
			o.Expect = "sat"
		}
	}
}

func clauseName(cl Clause, i int) string {
	if cl.Label != "" {
		return cl.Label
	}
	return fmt.Sprint(i)
}

func (c *FnCtx) backEdge(fr *frame, from, to *ssa.BasicBlock, cond string, st *State) {
	li := fr.loops[to]
	name := fmt.Sprintf("loop.%d", li.ordinal)
	for _, r := range li.frameRegs {
		if ft, ok := c.frameTerm(fr, st, r); ok {
			c.oblige("inv-preserve", fmt.Sprintf("inv-preserve#%s.frame.%s@b%d", name, r, from.Index), cond, ft, "implicit frame invariant for region "+r)
		}
	}
	if li.spec == nil {
		return
	}
	vals := map[string]Term{}
	for _, instr := range to.Instrs {
		phi, ok := instr.(*ssa.Phi)
		if !ok {
			break
		}
		for i, p := range to.Preds {
			if p == from {
				if t, ok := c.valIn(fr, phi.Edges[i]).(Term); ok && phi.Comment != "" {
					vals[phi.Comment] = t
				}
			}
		}
	}
	env := c.loopEnv(fr, li, st, vals)
	for i, inv := range li.spec.Inv {
		c.oblige("inv-preserve", fmt.Sprintf("inv-preserve#%s.%s@b%d", name, clauseName(inv, i), from.Index), cond, c.evalBool(env, inv.E), inv.Src)
	}
	if li.spec.Dec != nil {
		d := c.evalInt(env, li.spec.Dec)
		c.oblige("decreases", fmt.Sprintf("decreases#%s@b%d", name, from.Index), cond, fmt.Sprintf("(and (<= 0 %s) (< %s %s))", d, d, li.dec0), "decreases")
	}
	if len(li.spec.BodyEns) > 0 {
		env.old = li.hdrSt
		env.oldNames = map[string]Term{}
		for k, v := range li.hdrSt.names {
			env.oldNames[k] = v
		}
		for i, be := range li.spec.BodyEns {
			c.oblige("body-ensures", fmt.Sprintf("body-ensures#%s.%s@b%d", name, clauseName(be, i), from.Index), cond, c.evalBool(env, be.E), be.Src)
		}
	}
}

// ---------- values ----------

func (c *FnCtx) setVal(fr *frame, v ssa.Value, x interface{}) {
	c.vals[v] = x
}

func (c *FnCtx) valIn(fr *frame, v ssa.Value) interface{} {
	switch k := v.(type) {
	case *ssa.Const:
		return c.constTerm(k)
	case *ssa.Global:
		return Term{S: "GLOBAL:" + k.Pkg.Pkg.Path() + "." + k.Name(), Sort: "GLOBAL", T: k.Type()}
	case *ssa.Function:
		return Term{S: "FUNC:" + funcKey(k), Sort: "FUNC", T: k.Type()}
	case *ssa.Builtin:
		return Term{S: "BUILTIN:" + k.Name(), Sort: "FUNC"}
	case *ssa.FreeVar:
		if fr.closure != nil {
			if x, ok := fr.closure[v]; ok {
				return x
			}
		}
	}
	if x, ok := c.vals[v]; ok {
		return x
	}
	c.fail("no value for %s (%T) in %s", v.Name(), v, funcKey(fr.fn))
	return nil
}

func (c *FnCtx) val(fr *frame, v ssa.Value) Term {
	x := c.valIn(fr, v)
	t, ok := x.(Term)
	if !ok {
		c.fail("value %s = %s is not a term (%T)", v.Name(), v, x)
	}
	return t
}

// frameTerm: "region r differs from its entry version only at the refs listed in modifies".
func (c *FnCtx) frameTerm(fr *frame, st *State, r string) (string, bool) {
	if fr.modWhole[r] || c.prof.isTracked(r) || strings.HasPrefix(r, "L_") {
		return "", false
	}
	srt := c.regSort[r]
	cur := c.get(st, r)
	if cur == r+"@0" {
		return "", false
	}
	if !strings.HasPrefix(srt, "(Array Int ") {
		return fmt.Sprintf("(= %s %s@0)", cur, r), true
	}
	var ne []string
	for _, ref := range fr.modRefs[r] {
		ne = append(ne, fmt.Sprintf("(not (= q_r %s))", ref))
	}
	return fmt.Sprintf("(forall ((q_r Int)) (! (=> (and (<= 0 q_r) (< q_r alloc@0) %s) (= (select %s q_r) (select %s@0 q_r))) :pattern ((select %s q_r))))", strings.Join(ne, " "), cur, r, cur), true
}
