package main

// Contract expression language: lexer + Pratt parser.
//
//   expr   := ('forall'|'exists') binder {',' binder} '::' expr | iff
//   binder := ident [type]          (type: Go-ish type name, default int)
//   iff    := imp ['<==>' imp]
//   imp    := or ['==>' imp]
//   or     := and {'||' and} ; and := cmp {'&&' cmp}
//   cmp    := add [('=='|'!='|'<'|'<='|'>'|'>=') add]
//   add    := mul {('+'|'-'|'|'|'^') mul} ; mul := un {('*'|'/'|'%'|'&'|'<<'|'>>') un}
//   un     := ('!'|'-'|'*'|'^') un | post
//   post   := prim {'.' ident | '[' expr ']' | '[' [expr] ':' [expr] ']' | '(' args ')'}
//   prim   := number | ident | '(' expr ')' | string

import (
	"fmt"
	"strings"
	"unicode"
)

type Node struct {
	Op      string // "num","id","str","un","bin","sel","idx","slice","call","forall","exists","ite"
	Name    string // operator / identifier / field
	Args    []*Node
	Binders []Binder
	Triggers [][]*Node // quantifiers: explicit trigger sets  forall x :: {t1, t2} {t3} body
}

type Binder struct{ Name, Type string }

func (n *Node) String() string {
	switch n.Op {
	case "num", "id":
		return n.Name
	case "str":
		return fmt.Sprintf("%q", n.Name)
	case "un":
		return n.Name + n.Args[0].String()
	case "bin":
		return "(" + n.Args[0].String() + " " + n.Name + " " + n.Args[1].String() + ")"
	case "sel":
		return n.Args[0].String() + "." + n.Name
	case "idx":
		return n.Args[0].String() + "[" + n.Args[1].String() + "]"
	case "call":
		var a []string
		for _, x := range n.Args[1:] {
			a = append(a, x.String())
		}
		return n.Args[0].String() + "(" + strings.Join(a, ", ") + ")"
	case "forall", "exists":
		var b []string
		for _, x := range n.Binders {
			b = append(b, x.Name+" "+x.Type)
		}
		return "(" + n.Op + " " + strings.Join(b, ", ") + " :: " + n.Args[0].String() + ")"
	}
	return n.Op
}

type tok struct {
	k string // "num","id","op","str","eof"
	s string
}

func lex(src string) ([]tok, error) {
	var ts []tok
	rs := []rune(src)
	i := 0
	ops := []string{"<==>", "==>", "::", "==", "!=", "<=", ">=", "&&", "||", "<<", ">>"}
	for i < len(rs) {
		c := rs[i]
		switch {
		case unicode.IsSpace(c):
			i++
		case unicode.IsDigit(c):
			j := i
			for j < len(rs) && (unicode.IsDigit(rs[j]) || unicode.IsLetter(rs[j]) || rs[j] == '_') {
				j++
			}
			ts = append(ts, tok{"num", strings.ReplaceAll(string(rs[i:j]), "_", "")})
			i = j
		case unicode.IsLetter(c) || c == '_' || c == '$':
			j := i
			for j < len(rs) && (unicode.IsDigit(rs[j]) || unicode.IsLetter(rs[j]) || rs[j] == '_' || rs[j] == '$' || rs[j] == '\'') {
				j++
			}
			ts = append(ts, tok{"id", string(rs[i:j])})
			i = j
		case c == '"':
			j := i + 1
			for j < len(rs) && rs[j] != '"' {
				j++
			}
			if j >= len(rs) {
				return nil, fmt.Errorf("unterminated string")
			}
			ts = append(ts, tok{"str", string(rs[i+1 : j])})
			i = j + 1
		default:
			matched := false
			for _, o := range ops {
				if strings.HasPrefix(string(rs[i:]), o) {
					ts = append(ts, tok{"op", o})
					i += len([]rune(o))
					matched = true
					break
				}
			}
			if !matched {
				if strings.ContainsRune("+-*/%&|^!<>()[].,:{}", c) {
					ts = append(ts, tok{"op", string(c)})
					i++
				} else {
					return nil, fmt.Errorf("bad character %q", c)
				}
			}
		}
	}
	ts = append(ts, tok{"eof", ""})
	return ts, nil
}

type parser struct {
	ts []tok
	p  int
}

func ParseExpr(src string) (n *Node, err error) {
	ts, err := lex(src)
	if err != nil {
		return nil, fmt.Errorf("%v in %q", err, src)
	}
	p := &parser{ts: ts}
	defer func() {
		if r := recover(); r != nil {
			n = nil
			err = fmt.Errorf("parse error: %v in %q", r, src)
		}
	}()
	n = p.expr()
	if p.cur().k != "eof" {
		panic(fmt.Sprintf("unexpected %q", p.cur().s))
	}
	return n, nil
}

func (p *parser) cur() tok { return p.ts[p.p] }
func (p *parser) isOp(s string) bool {
	return p.cur().k == "op" && p.cur().s == s
}
func (p *parser) accept(s string) bool {
	if p.isOp(s) {
		p.p++
		return true
	}
	return false
}
func (p *parser) expect(s string) {
	if !p.accept(s) {
		panic(fmt.Sprintf("expected %q, got %q", s, p.cur().s))
	}
}

func (p *parser) expr() *Node {
	if p.cur().k == "id" && (p.cur().s == "forall" || p.cur().s == "exists") {
		op := p.cur().s
		p.p++
		var bs []Binder
		for {
			if p.cur().k != "id" {
				panic("binder name expected")
			}
			b := Binder{Name: p.cur().s, Type: "int"}
			p.p++
			if p.cur().k == "id" {
				b.Type = p.cur().s
				p.p++
				if p.accept(".") {
					b.Type += "." + p.cur().s
					p.p++
				}
			}
			bs = append(bs, b)
			if !p.accept(",") {
				break
			}
		}
		p.expect("::")
		var trigs [][]*Node
		for p.isOp("{") {
			p.p++
			var set []*Node
			for {
				set = append(set, p.or())
				if !p.accept(",") {
					break
				}
			}
			p.expect("}")
			trigs = append(trigs, set)
		}
		body := p.expr()
		return &Node{Op: op, Binders: bs, Args: []*Node{body}, Triggers: trigs}
	}
	return p.iff()
}

func (p *parser) iff() *Node {
	l := p.imp()
	if p.accept("<==>") {
		r := p.imp()
		return &Node{Op: "bin", Name: "<==>", Args: []*Node{l, r}}
	}
	return l
}
func (p *parser) imp() *Node {
	l := p.or()
	if p.accept("==>") {
		var r *Node
		if p.cur().k == "id" && (p.cur().s == "forall" || p.cur().s == "exists") {
			r = p.expr()
		} else {
			r = p.imp()
		}
		return &Node{Op: "bin", Name: "==>", Args: []*Node{l, r}}
	}
	return l
}
func (p *parser) or() *Node {
	l := p.and()
	for p.accept("||") {
		r := p.and()
		l = &Node{Op: "bin", Name: "||", Args: []*Node{l, r}}
	}
	return l
}
func (p *parser) and() *Node {
	l := p.cmp()
	for p.accept("&&") {
		var r *Node
		if p.cur().k == "id" && (p.cur().s == "forall" || p.cur().s == "exists") {
			r = p.expr()
		} else {
			r = p.cmp()
		}
		l = &Node{Op: "bin", Name: "&&", Args: []*Node{l, r}}
	}
	return l
}
func (p *parser) cmp() *Node {
	l := p.add()
	for _, o := range []string{"==", "!=", "<=", ">=", "<", ">"} {
		if p.accept(o) {
			r := p.add()
			return &Node{Op: "bin", Name: o, Args: []*Node{l, r}}
		}
	}
	return l
}
func (p *parser) add() *Node {
	l := p.mul()
	for {
		found := false
		for _, o := range []string{"+", "-", "|", "^"} {
			if p.accept(o) {
				r := p.mul()
				l = &Node{Op: "bin", Name: o, Args: []*Node{l, r}}
				found = true
				break
			}
		}
		if !found {
			return l
		}
	}
}
func (p *parser) mul() *Node {
	l := p.un()
	for {
		found := false
		for _, o := range []string{"*", "/", "%", "&", "<<", ">>"} {
			if p.accept(o) {
				r := p.un()
				l = &Node{Op: "bin", Name: o, Args: []*Node{l, r}}
				found = true
				break
			}
		}
		if !found {
			return l
		}
	}
}
func (p *parser) un() *Node {
	for _, o := range []string{"!", "-", "*", "^"} {
		if p.accept(o) {
			x := p.un()
			return &Node{Op: "un", Name: o, Args: []*Node{x}}
		}
	}
	return p.post()
}
func (p *parser) post() *Node {
	x := p.prim()
	for {
		switch {
		case p.accept("."):
			if p.cur().k != "id" {
				panic("field name expected")
			}
			x = &Node{Op: "sel", Name: p.cur().s, Args: []*Node{x}}
			p.p++
		case p.accept("["):
			var lo, hi *Node
			if !p.isOp(":") {
				lo = p.expr()
			}
			if p.accept(":") {
				if !p.isOp("]") {
					hi = p.expr()
				}
				p.expect("]")
				x = &Node{Op: "slice", Args: []*Node{x, lo, hi}}
			} else {
				p.expect("]")
				x = &Node{Op: "idx", Args: []*Node{x, lo}}
			}
		case p.accept("("):
			args := []*Node{x}
			if !p.isOp(")") {
				for {
					args = append(args, p.expr())
					if !p.accept(",") {
						break
					}
				}
			}
			p.expect(")")
			x = &Node{Op: "call", Args: args}
		default:
			return x
		}
	}
}
func (p *parser) prim() *Node {
	t := p.cur()
	switch t.k {
	case "num":
		p.p++
		return &Node{Op: "num", Name: t.s}
	case "id":
		p.p++
		return &Node{Op: "id", Name: t.s}
	case "str":
		p.p++
		return &Node{Op: "str", Name: t.s}
	case "op":
		if t.s == "(" {
			p.p++
			x := p.expr()
			p.expect(")")
			return x
		}
	}
	panic(fmt.Sprintf("unexpected %q", t.s))
}
