package main

// Engine: package loading, SSA construction, contract and prelude loading.

import (
	"fmt"
	"go/types"
	"os"
	"path/filepath"
	"sort"
	"strings"

	"golang.org/x/tools/go/packages"
	"golang.org/x/tools/go/ssa"
	"golang.org/x/tools/go/ssa/ssautil"
)

type FunSig struct {
	Params []string
	Ret    string
}

type Profile struct {
	Name         string
	Mode         Mode
	DefaultHavoc bool
	IgnorePanics bool
	NoNilChecks  bool
	NoWrapChecks bool
	NoBounds     bool
	Inline       map[string]bool
	Noop         map[string]bool
	Tracked      []string // region-name prefixes that havoc-calls leave alone
	AutoLoopInv  []Clause // invariants given to every loop that has none of its own
	Guarded      map[string][2]*Node // region -> (read condition, write condition)
	lockHook     func(c *FnCtx, fr *frame, st *State, name string, cc *ssa.CallCommon)
}

func (p *Profile) isTracked(region string) bool {
	for _, t := range p.Tracked {
		if strings.HasPrefix(region, t) {
			return true
		}
	}
	return false
}
func (p *Profile) inlineOK(key string) bool { return p.Inline[key] }
func (p *Profile) noop(key string) bool     { return p.Noop[key] }

type Engine struct {
	root       string
	prog       *ssa.Program
	pkgs       []*packages.Package
	spkgs      map[string]*ssa.Package
	allPkgs    []*types.Package
	contracts  map[string][]*Contract
	dtDecls    []string
	dtDeclared map[string]bool
	structOf   map[string]*types.Struct
	funDecls   []string
	funSeen    map[string]bool
	strIDs     map[string]int
	strOrder   []string
	typeIDs    map[string]int
	typeNames  []string
	prelude    string
	sigs       map[string]FunSig
	ghosts     map[string]string
	contractFiles []string
	mode Mode
}

func (e *Engine) declareFun(name, sig string) {
	if e.funSeen[name] {
		return
	}
	e.funSeen[name] = true
	// sig: "(A B) R"
	e.funDecls = append(e.funDecls, fmt.Sprintf("(declare-fun %s %s)", name, sig))
}

func (e *Engine) strConst(s string) string {
	if s == "" {
		return "0"
	}
	if id, ok := e.strIDs[s]; ok {
		return fmt.Sprint(id)
	}
	id := len(e.strIDs) + 1
	e.strIDs[s] = id
	e.strOrder = append(e.strOrder, s)
	return fmt.Sprint(id)
}

func (e *Engine) typeID(t types.Type) int {
	k := types.TypeString(t, nil)
	if id, ok := e.typeIDs[k]; ok {
		return id
	}
	id := len(e.typeIDs) + 1
	e.typeIDs[k] = id
	e.typeNames = append(e.typeNames, k)
	return id
}

func (e *Engine) contractFor(key string, p *Profile) *Contract {
	for _, c := range e.contracts[key] {
		if c.HasProfile(p.Name) {
			return c
		}
	}
	return nil
}

const commonPreludeTmpl = `(set-logic ALL)
(define-sort FP32 () (_ FloatingPoint 8 24))
(define-sort FP64 () (_ FloatingPoint 11 53))
(declare-datatype Slice ((mk_Slice (sl_arr Int) (sl_off Int) (sl_len Int) (sl_cap Int))))
(declare-datatype Iface ((mk_Iface (if_tag Int) (if_val Int))))
(declare-fun idx (Int Int) Int)
(assert (forall ((o Int) (i Int)) (! (= (idx o i) (+ o i)) :pattern ((idx o i)))))
(declare-fun strlen (Int) Int)
(declare-fun strat (Int Int) @BYTE@)
(declare-fun strcat (Int Int) Int)
(declare-fun substr (Int Int Int) Int)
(declare-fun strlt (Int Int) Bool)
(declare-fun str_contains (Int Int) Bool)
(declare-fun str_hassuffix (Int Int) Bool)
(declare-fun str_hasprefix (Int Int) Bool)
(declare-fun str_lower (Int) Int)
(declare-fun str_nsplit (Int Int) Int)
(declare-fun str_part (Int Int Int) Int)
(assert (= (strlen 0) 0))
(assert (forall ((s Int)) (! (<= 0 (strlen s)) :pattern ((strlen s)))))
@BYTERANGE@
(assert (forall ((s Int) (lo Int) (hi Int)) (! (=> (and (<= 0 lo) (<= lo hi) (<= hi (strlen s))) (= (strlen (substr s lo hi)) (- hi lo))) :pattern ((substr s lo hi)))))
(assert (forall ((s Int) (lo Int) (hi Int) (i Int)) (! (=> (and (<= 0 lo) (<= lo hi) (<= hi (strlen s)) (<= 0 i) (< i (- hi lo))) (= (strat (substr s lo hi) i) (strat s (+ lo i)))) :pattern ((strat (substr s lo hi) i)))))
`

func NewEngine(root string, patterns []string, tags string) (*Engine, error) {
	env := append(os.Environ(), "GOFLAGS=-mod=mod", "GOPROXY=off", "GOSUMDB=off", "GOTOOLCHAIN=local")
	cfg := &packages.Config{Mode: packages.LoadAllSyntax, Dir: root, Env: env}
	if tags != "" {
		cfg.BuildFlags = []string{"-tags", tags}
	}
	pkgs, err := packages.Load(cfg, patterns...)
	if err != nil {
		return nil, err
	}
	if n := packages.PrintErrors(pkgs); n > 0 {
		return nil, fmt.Errorf("%d package load errors", n)
	}
	prog, _ := ssautil.AllPackages(pkgs, ssa.GlobalDebug)
	prog.Build()
	e := &Engine{root: root, prog: prog, pkgs: pkgs, spkgs: map[string]*ssa.Package{}, contracts: map[string][]*Contract{},
		dtDeclared: map[string]bool{}, structOf: map[string]*types.Struct{}, funSeen: map[string]bool{}, strIDs: map[string]int{},
		typeIDs: map[string]int{}, sigs: map[string]FunSig{}, ghosts: map[string]string{}}
	e.sigs["strlen"] = FunSig{Params: []string{SInt}, Ret: SInt}
	e.sigs["strat"] = FunSig{Params: []string{SInt, SInt}, Ret: SInt} // Ret fixed by SetMode
	e.sigs["strcat"] = FunSig{Params: []string{SInt, SInt}, Ret: SInt}
	e.sigs["substr"] = FunSig{Params: []string{SInt, SInt, SInt}, Ret: SInt}
	e.sigs["strlt"] = FunSig{Params: []string{SInt, SInt}, Ret: SBool}
	// uninterpreted models of package strings (what the functions compute is not modelled, only that they are functions)
	e.sigs["str_contains"] = FunSig{Params: []string{SInt, SInt}, Ret: SBool}
	e.sigs["str_hassuffix"] = FunSig{Params: []string{SInt, SInt}, Ret: SBool}
	e.sigs["str_hasprefix"] = FunSig{Params: []string{SInt, SInt}, Ret: SBool}
	e.sigs["str_lower"] = FunSig{Params: []string{SInt}, Ret: SInt}
	e.sigs["str_nsplit"] = FunSig{Params: []string{SInt, SInt}, Ret: SInt}
	e.sigs["str_part"] = FunSig{Params: []string{SInt, SInt, SInt}, Ret: SInt}
	for _, sp := range prog.AllPackages() {
		e.spkgs[sp.Pkg.Path()] = sp
		e.allPkgs = append(e.allPkgs, sp.Pkg)
	}
	sort.Slice(e.allPkgs, func(i, j int) bool { return e.allPkgs[i].Path() < e.allPkgs[j].Path() })
	// contract files: every contracts_verif.go below root, bound to the package of its directory
	seen := map[string]bool{}
	packages.Visit(pkgs, nil, func(p *packages.Package) {
		for _, f := range p.GoFiles {
			if filepath.Base(f) == "contracts_verif.go" && !seen[f] {
				seen[f] = true
				cs, err2 := ParseContractFile(f, p.PkgPath)
				if err2 != nil {
					err = err2
					return
				}
				e.contractFiles = append(e.contractFiles, f)
				for _, c := range cs {
					key := p.PkgPath + "::" + c.Func
					e.contracts[key] = append(e.contracts[key], c)
				}
			}
		}
	})
	if err != nil {
		return nil, err
	}
	return e, nil
}

func (e *Engine) LoadPrelude(files []string) error {
	var sb strings.Builder
	for _, f := range files {
		data, err := os.ReadFile(f)
		if err != nil {
			return err
		}
		sb.Write(data)
		sb.WriteString("\n")
		for _, line := range strings.Split(string(data), "\n") {
			t := strings.TrimSpace(line)
			if strings.HasPrefix(t, ";@ghost ") {
				f := strings.SplitN(strings.TrimPrefix(t, ";@ghost "), " ", 2)
				e.ghosts[f[0]] = strings.TrimSpace(f[1])
			}
		}
		sx, err := parseSexps(string(data))
		if err != nil {
			return fmt.Errorf("%s: %v", f, err)
		}
		for _, s := range sx {
			if len(s.list) >= 4 && (s.list[0].atom == "define-fun" || s.list[0].atom == "declare-fun" || s.list[0].atom == "define-fun-rec") {
				name := s.list[1].atom
				var ps []string
				for _, p := range s.list[2].list {
					if s.list[0].atom == "declare-fun" {
						ps = append(ps, p.String())
					} else {
						ps = append(ps, p.list[1].String())
					}
				}
				e.sigs[name] = FunSig{Params: ps, Ret: s.list[3].String()}
			}
			if len(s.list) == 3 && s.list[0].atom == "declare-const" {
				e.sigs[s.list[1].atom] = FunSig{Ret: s.list[2].String()}
			}
		}
	}
	e.prelude = sb.String()
	return nil
}

type sexp struct {
	atom string
	list []*sexp
	isList bool
}

func (s *sexp) String() string {
	if !s.isList {
		return s.atom
	}
	var parts []string
	for _, x := range s.list {
		parts = append(parts, x.String())
	}
	return "(" + strings.Join(parts, " ") + ")"
}

func parseSexps(src string) ([]*sexp, error) {
	var out []*sexp
	i := 0
	var parse func() (*sexp, error)
	skip := func() {
		for i < len(src) {
			if src[i] == ';' {
				for i < len(src) && src[i] != '\n' {
					i++
				}
			} else if src[i] == ' ' || src[i] == '\n' || src[i] == '\t' || src[i] == '\r' {
				i++
			} else {
				return
			}
		}
	}
	parse = func() (*sexp, error) {
		skip()
		if i >= len(src) {
			return nil, fmt.Errorf("unexpected eof")
		}
		if src[i] == '(' {
			i++
			s := &sexp{isList: true}
			for {
				skip()
				if i >= len(src) {
					return nil, fmt.Errorf("unbalanced")
				}
				if src[i] == ')' {
					i++
					return s, nil
				}
				x, err := parse()
				if err != nil {
					return nil, err
				}
				s.list = append(s.list, x)
			}
		}
		if src[i] == '|' {
			j := i + 1
			for j < len(src) && src[j] != '|' {
				j++
			}
			a := src[i : j+1]
			i = j + 1
			return &sexp{atom: a}, nil
		}
		if src[i] == '"' {
			j := i + 1
			for j < len(src) && src[j] != '"' {
				j++
			}
			a := src[i : j+1]
			i = j + 1
			return &sexp{atom: a}, nil
		}
		j := i
		for j < len(src) && !strings.ContainsRune(" \n\t\r()", rune(src[j])) {
			j++
		}
		a := src[i:j]
		i = j
		return &sexp{atom: a}, nil
	}
	for {
		skip()
		if i >= len(src) {
			return out, nil
		}
		s, err := parse()
		if err != nil {
			return nil, err
		}
		out = append(out, s)
	}
}

func (e *Engine) findFunc(key string) *ssa.Function {
	i := strings.Index(key, "::")
	pkgPath, name := key[:i], key[i+2:]
	sp := e.spkgs[pkgPath]
	if sp == nil {
		return nil
	}
	if j := strings.Index(name, "."); j >= 0 {
		tn, mn := name[:j], name[j+1:]
		obj := sp.Pkg.Scope().Lookup(tn)
		if obj == nil {
			return nil
		}
		for _, t := range []types.Type{obj.Type(), types.NewPointer(obj.Type())} {
			ms := e.prog.MethodSets.MethodSet(t)
			for k := 0; k < ms.Len(); k++ {
				if ms.At(k).Obj().Name() == mn {
					fn := e.prog.MethodValue(ms.At(k))
					if fn != nil && fn.Synthetic == "" {
						return fn
					}
				}
			}
		}
		return nil
	}
	return sp.Func(name)
}


var commonPrelude string

func (e *Engine) SetMode(m Mode) {
	e.mode = m
	if m == ModeBV {
		commonPrelude = strings.ReplaceAll(strings.ReplaceAll(commonPreludeTmpl, "@BYTE@", "(_ BitVec 8)"), "@BYTERANGE@", bvBridge)
		e.sigs["i2b8"] = FunSig{Params: []string{SInt}, Ret: bvSort(8)}
		e.sigs["b2i8"] = FunSig{Params: []string{bvSort(8)}, Ret: SInt}
		e.sigs["strat"] = FunSig{Params: []string{SInt, SInt}, Ret: bvSort(8)}
	} else {
		commonPrelude = strings.ReplaceAll(strings.ReplaceAll(commonPreludeTmpl, "@BYTE@", "Int"), "@BYTERANGE@",
			"(assert (forall ((s Int) (i Int)) (! (and (<= 0 (strat s i)) (<= (strat s i) 255)) :pattern ((strat s i)))))")
	}
}

// The only Int<->bit-vector bridge used in bit-vector mode: a bijection between
// [0,256) and bytes, kept uninterpreted so that solvers use exactly these axioms.
const bvBridge = `(declare-fun i2b8 (Int) (_ BitVec 8))
(declare-fun b2i8 ((_ BitVec 8)) Int)
(assert (forall ((y Int)) (! (=> (and (<= 0 y) (< y 256)) (= (b2i8 (i2b8 y)) y)) :pattern ((i2b8 y)))))
(assert (forall ((b (_ BitVec 8))) (! (and (= (i2b8 (b2i8 b)) b) (<= 0 (b2i8 b)) (< (b2i8 b) 256)) :pattern ((b2i8 b)))))
(assert (= (i2b8 0) #x00))
(assert (= (b2i8 #x00) 0))
`
