package main

// SSA instruction semantics.

import (
	"fmt"
	"go/constant"
	"go/token"
	"go/types"
	"math"
	"math/big"
	"strings"

	"golang.org/x/tools/go/ssa"
)

func pow2(k int) string {
	return new(big.Int).Lsh(big.NewInt(1), uint(k)).String()
}

func intRange(t types.Type) (lo, hi string, ok bool) {
	w, signed, _, ok := intWidth(t)
	if !ok {
		return
	}
	if signed {
		l := new(big.Int).Lsh(big.NewInt(1), uint(w-1))
		h := new(big.Int).Sub(l, big.NewInt(1))
		return "(- " + l.String() + ")", h.String(), true
	}
	h := new(big.Int).Sub(new(big.Int).Lsh(big.NewInt(1), uint(w)), big.NewInt(1))
	return "0", h.String(), true
}

func smtInt(v *big.Int) string {
	if v.Sign() < 0 {
		return "(- " + new(big.Int).Neg(v).String() + ")"
	}
	return v.String()
}

func bvLitBig(v *big.Int, w int) string {
	m := new(big.Int).Lsh(big.NewInt(1), uint(w))
	u := new(big.Int).Mod(v, m)
	return fmt.Sprintf("(_ bv%s %d)", u.String(), w)
}

// typeFacts adds the type invariants of a freshly introduced symbolic value.
func (c *FnCtx) typeFacts(st *State, t Term, gt types.Type) {
	if gt == nil {
		return
	}
	switch u := gt.Underlying().(type) {
	case *types.Basic:
		if u.Info()&types.IsInteger != 0 && t.Sort == SInt {
			lo, hi, _ := intRange(gt)
			c.assume(c.tfGuard, fmt.Sprintf("(and (<= %s %s) (<= %s %s))", lo, t.S, t.S, hi))
		}
		if u.Info()&types.IsString != 0 {
			c.assume(c.tfGuard, fmt.Sprintf("(<= 0 %s)", t.S))
		}
	case *types.Pointer, *types.Map:
		c.assume(c.tfGuard, fmt.Sprintf("(and (<= 0 %s) (< %s %s))", t.S, t.S, st.alloc))
	case *types.Slice:
		c.assume(c.tfGuard, fmt.Sprintf("(and (<= 0 (sl_arr %s)) (< (sl_arr %s) %s) (<= 0 (sl_off %s)) (<= 0 (sl_len %s)) (<= (sl_len %s) (sl_cap %s)) (<= (sl_cap %s) 4611686018427387904) (=> (= (sl_arr %s) 0) (= (sl_cap %s) 0)))", t.S, t.S, st.alloc, t.S, t.S, t.S, t.S, t.S, t.S, t.S))
	case *types.Struct:
		srt := c.sortOf(gt)
		for i := 0; i < u.NumFields(); i++ {
			ft := u.Field(i).Type()
			f := Term{S: fmt.Sprintf("(%s_%s %s)", srt, sanitize(u.Field(i).Name()), t.S), Sort: c.sortOf(ft), T: ft}
			c.typeFacts(st, f, ft)
		}
	}
}

func (c *FnCtx) constTerm(k *ssa.Const) Term {
	t := k.Type()
	if k.Value == nil {
		// nil / zero value
		if _, ok := t.Underlying().(*types.Basic); ok && t.Underlying().(*types.Basic).Kind() == types.UntypedNil {
			return Term{S: "0", Sort: SInt, T: t}
		}
		return Term{S: c.zero(t), Sort: c.sortOf(t), T: t}
	}
	srt := c.sortOf(t)
	switch k.Value.Kind() {
	case constant.Bool:
		return Term{S: fmt.Sprint(constant.BoolVal(k.Value)), Sort: SBool, T: t}
	case constant.Int:
		v, _ := new(big.Int).SetString(k.Value.ExactString(), 10)
		if w, ok := isBV(srt); ok {
			return Term{S: bvLitBig(v, w), Sort: srt, T: t}
		}
		if srt == SFP32 || srt == SFP64 {
			f, _ := constant.Float64Val(k.Value)
			return c.floatConst(f, srt, t)
		}
		return Term{S: smtInt(v), Sort: SInt, T: t}
	case constant.Float:
		f, _ := constant.Float64Val(k.Value)
		if srt == SFP32 || srt == SFP64 {
			return c.floatConst(f, srt, t)
		}
		// float constant converted to an integer type
		v, _ := new(big.Float).SetFloat64(f).Int(nil)
		if w, ok := isBV(srt); ok {
			return Term{S: bvLitBig(v, w), Sort: srt, T: t}
		}
		return Term{S: smtInt(v), Sort: SInt, T: t}
	case constant.String:
		return Term{S: c.eng.strConst(constant.StringVal(k.Value)), Sort: SInt, T: t}
	}
	c.fail("unsupported constant %s", k)
	return Term{}
}

func (c *FnCtx) floatConst(f float64, srt string, t types.Type) Term {
	if srt == SFP32 {
		bits := math.Float32bits(float32(f))
		return Term{S: fmt.Sprintf("((_ to_fp 8 24) #x%08x)", bits), Sort: srt, T: t}
	}
	bits := math.Float64bits(f)
	return Term{S: fmt.Sprintf("((_ to_fp 11 53) #x%016x)", bits), Sort: srt, T: t}
}

func (c *FnCtx) execInstr(fr *frame, st *State, guard string, instr ssa.Instruction) {
	switch x := instr.(type) {
	case *ssa.DebugRef:
		if id, ok := x.Expr.(interface{ String() string }); ok {
			_ = id
		}
		if obj := x.Object(); obj != nil {
			if v, ok := c.valIn(fr, x.X).(Term); ok {
				if x.IsAddr {
					st.names["&"+obj.Name()] = v
				} else {
					st.names[obj.Name()] = v
				}
			}
		}
	case *ssa.Alloc:
		c.setVal(fr, x, c.alloc(st, guard, x))
	case *ssa.BinOp:
		c.setVal(fr, x, c.binop(fr, st, guard, x))
	case *ssa.UnOp:
		c.setVal(fr, x, c.unop(fr, st, guard, x))
	case *ssa.Convert:
		c.setVal(fr, x, c.convert(fr, st, guard, x))
	case *ssa.ChangeType:
		v := c.valIn(fr, x.X)
		if t, ok := v.(Term); ok {
			t.T = x.Type()
			v = t
		}
		c.setVal(fr, x, v)
	case *ssa.ChangeInterface:
		c.setVal(fr, x, c.valIn(fr, x.X))
	case *ssa.SliceToArrayPointer:
		s := c.val(fr, x.X)
		n := x.Type().Underlying().(*types.Pointer).Elem().Underlying().(*types.Array).Len()
		c.oblige("bounds", "slice2arr@"+x.Name(), guard, fmt.Sprintf("(>= %s %d)", slLen(s.S), n), "slice to array pointer length")
		// identity on the backing array requires offset 0
		c.oblige("bounds", "slice2arr-off@"+x.Name(), guard, fmt.Sprintf("(= %s 0)", slOff(s.S)), "slice to array pointer at offset 0 (engine restriction)")
		c.setVal(fr, x, Term{S: slArr(s.S), Sort: SInt, T: x.Type()})
	case *ssa.MakeInterface:
		if _, isLoc := c.valIn(fr, x.X).(*Loc); isLoc {
			// address of a field/element boxed for a library call (binary.Read(&t.f)): the models
			// look at the operand syntactically; the interface value itself is opaque
			c.setVal(fr, x, Term{S: c.fresh("locif", SIface), Sort: SIface, T: x.Type()})
			break
		}
		if lt, ok := c.valIn(fr, x.X).(Term); ok && lt.Sort == "LOCAL" {
			c.setVal(fr, x, Term{S: c.fresh("locif", SIface), Sort: SIface, T: x.Type()})
			break
		}
		c.setVal(fr, x, c.makeInterface(c.val(fr, x.X), x.X.Type(), x.Type()))
	case *ssa.TypeAssert:
		c.typeAssert(fr, st, guard, x)
	case *ssa.Extract:
		tu, ok := c.valIn(fr, x.Tuple).(Tuple)
		if !ok {
			c.fail("extract from non-tuple %s", x.Tuple)
		}
		c.setVal(fr, x, tu[x.Index])
	case *ssa.Field:
		s := c.val(fr, x.X)
		stt := x.X.Type().Underlying().(*types.Struct)
		f := stt.Field(x.Field)
		c.setVal(fr, x, Term{S: fmt.Sprintf("(%s_%s %s)", s.Sort, sanitize(f.Name()), s.S), Sort: c.sortOf(f.Type()), T: f.Type()})
	case *ssa.FieldAddr:
		c.setVal(fr, x, c.fieldAddr(fr, st, guard, x))
	case *ssa.Index:
		a := c.val(fr, x.X)
		i := c.idxTerm(c.val(fr, x.Index))
		switch u := x.X.Type().Underlying().(type) {
		case *types.Array:
			c.oblige("bounds", "bounds@"+x.Name(), guard, fmt.Sprintf("(and (<= 0 %s) (< %s %d))", i, i, u.Len()), "array index")
			c.setVal(fr, x, Term{S: fmt.Sprintf("(select %s %s)", a.S, i), Sort: c.sortOf(u.Elem()), T: u.Elem()})
		default:
			c.fail("Index on %s", x.X.Type())
		}
	case *ssa.IndexAddr:
		c.setVal(fr, x, c.indexAddr(fr, st, guard, x))
	case *ssa.Lookup:
		c.lookup(fr, st, guard, x)
	case *ssa.MapUpdate:
		m := c.val(fr, x.Map)
		mt := x.Map.Type().Underlying().(*types.Map)
		d, v := c.mapRegions(mt)
		k := c.val(fr, x.Key)
		val := c.val(fr, x.Value)
		c.nilCheck(guard, m.S, "mapupdate@"+shortPos(c.curPos))
		cd, cv := c.get(st, d), c.get(st, v)
		c.set(st, d, fmt.Sprintf("(store %s %s (store (select %s %s) %s true))", cd, m.S, cd, m.S, k.S))
		c.set(st, v, fmt.Sprintf("(store %s %s (store (select %s %s) %s %s))", cv, m.S, cv, m.S, k.S, val.S))
	case *ssa.MakeMap:
		mt := x.Type().Underlying().(*types.Map)
		d, _ := c.mapRegions(mt)
		r := c.newRef(st, guard)
		c.set(st, d, fmt.Sprintf("(store %s %s ((as const (Array %s Bool)) false))", c.get(st, d), r, c.sortOf(mt.Key())))
		c.setVal(fr, x, Term{S: r, Sort: SInt, T: x.Type()})
	case *ssa.MakeSlice:
		et := x.Type().Underlying().(*types.Slice).Elem()
		reg := c.elemRegion(et)
		r := c.newRef(st, guard)
		ln := c.idxTerm(c.val(fr, x.Len))
		cp := c.idxTerm(c.val(fr, x.Cap))
		c.oblige("bounds", "makeslice@"+x.Name(), guard, fmt.Sprintf("(and (<= 0 %s) (<= %s %s))", ln, ln, cp), "make length")
		c.set(st, reg, fmt.Sprintf("(store %s %s %s)", c.get(st, reg), r, c.zeroOfSort(fmt.Sprintf("(Array Int %s)", c.sortOf(et)), types.NewArray(et, 0))))
		c.setVal(fr, x, Term{S: mkSlice(r, "0", ln, cp), Sort: SSlice, T: x.Type()})
	case *ssa.Slice:
		c.setVal(fr, x, c.sliceOp(fr, st, guard, x))
	case *ssa.Store:
		c.store(fr, st, guard, x.Addr, c.val(fr, x.Val))
	case *ssa.Call:
		c.setVal(fr, x, c.call(fr, st, guard, x, x.Common()))
	case *ssa.Defer:
		st.defers = append(st.defers, x)
	case *ssa.RunDefers:
		for i := len(st.defers) - 1; i >= 0; i-- {
			d := st.defers[i]
			c.call(fr, st, guard, d, d.Common())
		}
		st.defers = nil
	case *ssa.MakeClosure:
		// closures are only supported when called directly (see call)
		var binds []interface{}
		for _, b := range x.Bindings {
			binds = append(binds, c.valIn(fr, b))
		}
		c.setVal(fr, x, &closureVal{fn: x.Fn.(*ssa.Function), binds: binds})
	case *ssa.Go, *ssa.Send, *ssa.Select:
		c.fail("outside subset: %T (goroutines/channels) in %s", instr, funcKey(fr.fn))
	case *ssa.Range, *ssa.Next:
		c.rangeNext(fr, st, guard, instr)
	default:
		c.fail("unsupported instruction %T: %s in %s", instr, instr, funcKey(fr.fn))
	}
}

type closureVal struct {
	fn    *ssa.Function
	binds []interface{}
}

func (c *FnCtx) nilCheck(guard, ref, name string) {
	if strings.HasPrefix(ref, "sub!") {
		return // derived references of by-value fields: the base pointer was checked
	}
	if c.prof.NoNilChecks {
		// a nil dereference ends the path (it is an obligation of the safety sweep, not of this profile)
		c.assume(guard, fmt.Sprintf("(not (= %s 0))", ref))
		return
	}
	c.oblige("nil", "nil@"+name, guard, fmt.Sprintf("(not (= %s 0))", ref), "nil dereference")
}

// idxTerm converts an integer term used as an index/length to Int.
func (c *FnCtx) idxTerm(t Term) string {
	if t.Sort == SInt {
		return t.S
	}
	if w, ok := isBV(t.Sort); ok {
		_ = w
		signed := false
		if t.T != nil {
			_, signed, _, _ = intWidth(t.T)
		}
		return c.bv2int(t.S, w, signed)
	}
	c.fail("index of sort %s", t.Sort)
	return ""
}

func (c *FnCtx) bv2int(s string, w int, signed bool) string {
	// constant folding
	var n uint64
	var w2 int
	if k, _ := fmt.Sscanf(s, "(_ bv%d %d)", &n, &w2); k == 2 {
		if signed && w2 < 64 && n >= 1<<uint(w2-1) {
			return smtInt(new(big.Int).Sub(new(big.Int).SetUint64(n), new(big.Int).Lsh(big.NewInt(1), uint(w2))))
		}
		return fmt.Sprint(n)
	}
	if signed {
		return fmt.Sprintf("(ite (bvslt %s (_ bv0 %d)) (- (bv2nat %s) %s) (bv2nat %s))", s, w, s, pow2(w), s)
	}
	return fmt.Sprintf("(bv2nat %s)", s)
}

// isPrivateAlloc: the address of this local never leaves load/store position, so no callee can
// reach it; it is modelled as a scalar (non-heap) region.
func isPrivateAlloc(x *ssa.Alloc) bool {
	var check func(v ssa.Value, depth int) bool
	check = func(v ssa.Value, depth int) bool {
		refs := v.Referrers()
		if refs == nil {
			return false
		}
		for _, r := range *refs {
			switch u := r.(type) {
			case *ssa.Store:
				if u.Val == v {
					return false
				}
			case *ssa.UnOp:
				if u.Op != token.MUL {
					return false
				}
			case *ssa.DebugRef:
			case *ssa.MakeClosure:
				if depth > 0 {
					return false
				}
				fn := u.Fn.(*ssa.Function)
				for i, b := range u.Bindings {
					if b == v {
						if !check(fn.FreeVars[i], depth+1) {
							return false
						}
					}
				}
			default:
				return false
			}
		}
		return true
	}
	return check(x, 0)
}

func (c *FnCtx) localRegion(x *ssa.Alloc) string {
	name := fmt.Sprintf("L_%s_%s_%d", sanitize(x.Parent().Name()), sanitize(x.Comment), x.Pos())
	c.regionDecl(name, c.sortOf(derefT(x.Type())))
	return name
}

func (c *FnCtx) alloc(st *State, guard string, x *ssa.Alloc) Term {
	el := derefT(x.Type())
	if isPrivateAlloc(x) {
		reg := c.localRegion(x)
		c.set(st, reg, c.zero(el))
		return Term{S: "LOCAL:" + reg, Sort: "LOCAL", T: x.Type()}
	}
	r := c.newRef(st, guard)
	p := Term{S: r, Sort: SInt, T: x.Type()}
	// zero-initialise
	c.storePtr(st, p, el, Term{S: c.zero(el), Sort: c.sortOf(el), T: el})
	return p
}

func (c *FnCtx) fieldAddr(fr *frame, st *State, guard string, x *ssa.FieldAddr) interface{} {
	base := c.valIn(fr, x.X)
	stT := derefT(x.X.Type())
	su := stT.Underlying().(*types.Struct)
	ft := su.Field(x.Field).Type()
	var ref string
	switch b := base.(type) {
	case Term:
		ref = b.S
	case *Loc:
		// &elems[i].f : field of a by-value struct element
		if _, ok := b.T.Underlying().(*types.Struct); !ok {
			c.fail("FieldAddr through element/field address not supported (%s in %s)", x, funcKey(fr.fn))
		}
		return &Loc{Kind: "sub", Parent: b, Field: x.Field, T: ft, Region: b.Region, Ref: b.Ref}
	}
	c.nilCheck(guard, ref, x.Name())
	if _, ok := isWrapper(stT); ok && x.Field == 0 {
		return Term{S: ref, Sort: SInt, T: x.Type()}
	}
	switch ft.Underlying().(type) {
	case *types.Struct, *types.Array:
		// by-value nested aggregate: derived reference
		return Term{S: c.define("sub", SInt, subRef(ref, x.Field)), Sort: SInt, T: x.Type()}
	}
	reg, _ := c.fieldRegion(stT, x.Field)
	return &Loc{Kind: "field", Region: reg, Ref: ref, T: ft, Owner: x.X.Type()}
}

func (c *FnCtx) indexAddr(fr *frame, st *State, guard string, x *ssa.IndexAddr) interface{} {
	base := c.val(fr, x.X)
	i := c.idxTerm(c.val(fr, x.Index))
	switch u := x.X.Type().Underlying().(type) {
	case *types.Slice:
		c.oblige("bounds", "bounds@"+x.Name(), guard, fmt.Sprintf("(and (<= 0 %s) (< %s %s))", i, i, slLen(base.S)), "slice index")
		return &Loc{Kind: "elem", Region: c.elemRegion(u.Elem()), Ref: slArr(base.S), Idx: fmt.Sprintf("(idx %s %s)", slOff(base.S), i), T: u.Elem()}
	case *types.Pointer:
		at := u.Elem().Underlying().(*types.Array)
		c.nilCheck(guard, base.S, x.Name())
		c.oblige("bounds", "bounds@"+x.Name(), guard, fmt.Sprintf("(and (<= 0 %s) (< %s %d))", i, i, at.Len()), "array index")
		return &Loc{Kind: "elem", Region: c.elemRegion(at.Elem()), Ref: base.S, Idx: i, T: at.Elem()}
	}
	c.fail("IndexAddr on %s", x.X.Type())
	return nil
}

func (c *FnCtx) sliceOp(fr *frame, st *State, guard string, x *ssa.Slice) Term {
	base := c.val(fr, x.X)
	lo, hi := "0", ""
	if x.Low != nil {
		lo = c.idxTerm(c.val(fr, x.Low))
	}
	if x.High != nil {
		hi = c.idxTerm(c.val(fr, x.High))
	}
	if x.Max != nil {
		c.fail("3-index slice not supported")
	}
	switch u := x.X.Type().Underlying().(type) {
	case *types.Slice:
		if hi == "" {
			hi = slLen(base.S)
		}
		c.oblige("bounds", "slice@"+x.Name(), guard, fmt.Sprintf("(and (<= 0 %s) (<= %s %s) (<= %s %s))", lo, lo, hi, hi, slCap(base.S)), "slice bounds")
		return Term{S: mkSlice(slArr(base.S), add(slOff(base.S), lo), sub(hi, lo), sub(slCap(base.S), lo)), Sort: SSlice, T: x.Type()}
	case *types.Pointer:
		n := fmt.Sprint(u.Elem().Underlying().(*types.Array).Len())
		if hi == "" {
			hi = n
		}
		c.nilCheck(guard, base.S, x.Name())
		c.oblige("bounds", "slice@"+x.Name(), guard, fmt.Sprintf("(and (<= 0 %s) (<= %s %s) (<= %s %s))", lo, lo, hi, hi, n), "slice bounds")
		return Term{S: mkSlice(base.S, lo, sub(hi, lo), sub(n, lo)), Sort: SSlice, T: x.Type()}
	case *types.Basic: // string
		ln := fmt.Sprintf("(strlen %s)", base.S)
		if hi == "" {
			hi = ln
		}
		c.oblige("bounds", "slice@"+x.Name(), guard, fmt.Sprintf("(and (<= 0 %s) (<= %s %s) (<= %s %s))", lo, lo, hi, hi, ln), "string slice bounds")
		return Term{S: fmt.Sprintf("(substr %s %s %s)", base.S, lo, hi), Sort: SInt, T: x.Type()}
	}
	c.fail("Slice on %s", x.X.Type())
	return Term{}
}

func (c *FnCtx) store(fr *frame, st *State, guard string, addr ssa.Value, v Term) {
	a := c.valIn(fr, addr)
	switch p := a.(type) {
	case *Loc:
		c.checkGuarded(fr, st, guard, p, true)
		c.storeLoc(st, p, v)
	case Term:
		if p.Sort == "GLOBAL" {
			reg := c.globalRegion(p.S, derefT(addr.Type()))
			c.set(st, reg, v.S)
			return
		}
		if p.Sort == "LOCAL" {
			c.set(st, strings.TrimPrefix(p.S, "LOCAL:"), v.S)
			return
		}
		c.nilCheck(guard, p.S, "store@"+shortPos(c.curPos))
		c.storePtr(st, p, derefT(addr.Type()), v)
	default:
		c.fail("store through %T", a)
	}
}

// checkGuarded: lock discipline. If the profile declares the region of this field as guarded, the declared
// condition over the ghost lock state must hold at the access ("o" is the object whose field is accessed).
func (c *FnCtx) checkGuarded(fr *frame, st *State, guard string, p *Loc, write bool) {
	if p.Kind != "field" || c.prof.Guarded == nil || p.Owner == nil {
		return
	}
	pair, ok := c.prof.Guarded[p.Region]
	if !ok {
		return
	}
	n, kind := pair[0], "read"
	if write {
		n, kind = pair[1], "write"
	}
	if n == nil {
		return
	}
	env := c.newEnv(fr, st)
	env.bind["o"] = Term{S: p.Ref, Sort: SInt, T: p.Owner}
	goal := c.evalBool(env, n)
	c.oblige("guarded", fmt.Sprintf("guarded-%s@%s@%s", kind, strings.TrimPrefix(p.Region, "F_"), shortPos(c.curPos)), guard, goal, n.String())
}

func (c *FnCtx) globalRegion(name string, t types.Type) string {
	reg := "GV_" + sanitize(strings.TrimPrefix(name, "GLOBAL:"))
	c.regionDecl(reg, c.sortOf(t))
	return reg
}

func (c *FnCtx) unop(fr *frame, st *State, guard string, x *ssa.UnOp) interface{} {
	switch x.Op {
	case token.MUL:
		a := c.valIn(fr, x.X)
		switch p := a.(type) {
		case *Loc:
			c.checkGuarded(fr, st, guard, p, false)
			t := c.loadLoc(st, p)
			t = c.named(t, "ld")
			if strings.HasSuffix(c.get(st, p.Region), "@0") {
				// never written in this function: the value is from the entry heap
				// (only for objects of the entry heap: a fresh object of a callee that modifies nothing is
				// read through the same region version)
				es := *st
				es.alloc = "alloc@0"
				c.tfGuard = fmt.Sprintf("(and (<= 0 %s) (< %s alloc@0))", p.Ref, p.Ref)
				c.loadFacts(&es, t)
				c.tfGuard = ""
				c.loadFacts(st, t)
			} else {
				c.loadFacts(st, t)
			}
			return t
		case Term:
			if p.Sort == "GLOBAL" {
				reg := c.globalRegion(p.S, x.Type())
				t := Term{S: c.get(st, reg), Sort: c.sortOf(x.Type()), T: x.Type()}
				c.loadFacts(st, t)
				return t
			}
			if p.Sort == "LOCAL" {
				return Term{S: c.get(st, strings.TrimPrefix(p.S, "LOCAL:")), Sort: c.sortOf(x.Type()), T: x.Type()}
			}
			c.nilCheck(guard, p.S, x.Name())
			t := c.loadPtr(st, p, x.Type())
			t = c.named(t, "ld")
			c.loadFacts(st, t)
			return t
		}
		c.fail("load through %T", a)
	case token.NOT:
		a := c.val(fr, x.X)
		return Term{S: "(not " + a.S + ")", Sort: SBool, T: x.Type()}
	case token.SUB:
		a := c.val(fr, x.X)
		switch {
		case a.Sort == SInt:
			r := fmt.Sprintf("(- %s)", a.S)
			c.nowrap(guard, x, r)
			return Term{S: r, Sort: SInt, T: x.Type()}
		case a.Sort == SFP32 || a.Sort == SFP64:
			return Term{S: "(fp.neg " + a.S + ")", Sort: a.Sort, T: x.Type()}
		default:
			return Term{S: "(bvneg " + a.S + ")", Sort: a.Sort, T: x.Type()}
		}
	case token.XOR:
		a := c.val(fr, x.X)
		if a.Sort == SInt {
			w, signed, _, _ := intWidth(x.Type())
			if signed {
				return Term{S: fmt.Sprintf("(- (- %s) 1)", a.S), Sort: SInt, T: x.Type()}
			}
			return Term{S: fmt.Sprintf("(- %s %s)", new(big.Int).Sub(new(big.Int).Lsh(big.NewInt(1), uint(w)), big.NewInt(1)).String(), a.S), Sort: SInt, T: x.Type()}
		}
		return Term{S: "(bvnot " + a.S + ")", Sort: a.Sort, T: x.Type()}
	}
	c.fail("unsupported unop %s", x.Op)
	return nil
}

// named gives large terms a name.
func (c *FnCtx) named(t Term, prefix string) Term {
	if len(t.S) > 40 {
		t.S = c.define(prefix, t.Sort, t.S)
	}
	return t
}

// loadFacts: type invariants of a value read from the heap.
func (c *FnCtx) loadFacts(st *State, t Term) {
	if t.T == nil {
		return
	}
	switch t.T.Underlying().(type) {
	case *types.Basic:
		if t.Sort == SInt {
			c.typeFacts(st, t, t.T)
		}
	case *types.Pointer, *types.Map, *types.Slice:
		c.typeFacts(st, t, t.T)
	}
}

// wrapInt: the machine result of an integer operation whose mathematical value is raw.
func (c *FnCtx) wrapInt(raw string, t types.Type) string {
	w, signed, _, ok := intWidth(t)
	if !ok {
		return raw
	}
	lo, hi, _ := intRange(t)
	r := c.define("raw", SInt, raw)
	var wr string
	if signed {
		wr = fmt.Sprintf("(- (mod (+ %s %s) %s) %s)", r, pow2(w-1), pow2(w), pow2(w-1))
	} else {
		wr = fmt.Sprintf("(mod %s %s)", r, pow2(w))
	}
	res := c.define("wr", SInt, wr)
	c.assume("", fmt.Sprintf("(=> (and (<= %s %s) (<= %s %s)) (= %s %s))", lo, r, r, hi, res, r))
	return res
}

func (c *FnCtx) nowrap(guard string, x ssa.Value, raw string) {
	lo, hi, ok := intRange(x.Type())
	if !ok || c.prof.NoWrapChecks {
		return
	}
	c.oblige("nowrap", "nowrap@"+x.Name(), guard, fmt.Sprintf("(and (<= %s %s) (<= %s %s))", lo, raw, raw, hi), "integer overflow: "+x.String())
}

func isPow2(v *big.Int) (int, bool) {
	if v.Sign() <= 0 {
		return 0, false
	}
	if new(big.Int).And(v, new(big.Int).Sub(v, big.NewInt(1))).Sign() != 0 {
		return 0, false
	}
	return v.BitLen() - 1, true
}

func constBig(v ssa.Value) (*big.Int, bool) {
	k, ok := v.(*ssa.Const)
	if !ok || k.Value == nil || k.Value.Kind() != constant.Int {
		return nil, false
	}
	b, ok := new(big.Int).SetString(k.Value.ExactString(), 10)
	return b, ok
}

func (c *FnCtx) binop(fr *frame, st *State, guard string, x *ssa.BinOp) Term {
	a, b := c.val(fr, x.X), c.val(fr, x.Y)
	rt := x.Type()
	cmp := func(op string) Term { return Term{S: fmt.Sprintf("(%s %s %s)", op, a.S, b.S), Sort: SBool, T: rt} }
	// equality on any sort
	switch x.Op {
	case token.EQL, token.NEQ:
		var e string
		switch {
		case a.Sort == SFP32 || a.Sort == SFP64:
			e = fmt.Sprintf("(fp.eq %s %s)", a.S, b.S)
		case a.Sort == SSlice:
			// only comparison with nil is legal
			other := a
			if a.S == "(mk_Slice 0 0 0 0)" {
				other = b
			}
			e = fmt.Sprintf("(= (sl_arr %s) 0)", other.S)
		default:
			if a.Sort != b.Sort {
				c.fail("== on different sorts %s %s (%s)", a.Sort, b.Sort, x)
			}
			e = fmt.Sprintf("(= %s %s)", a.S, b.S)
		}
		if x.Op == token.NEQ {
			e = "(not " + e + ")"
		}
		return Term{S: e, Sort: SBool, T: rt}
	}
	switch {
	case a.Sort == SBool:
		c.fail("bool binop %s", x.Op)
	case a.Sort == SFP32 || a.Sort == SFP64:
		switch x.Op {
		case token.LSS:
			return cmp("fp.lt")
		case token.LEQ:
			return cmp("fp.leq")
		case token.GTR:
			return cmp("fp.gt")
		case token.GEQ:
			return cmp("fp.geq")
		case token.ADD:
			return Term{S: fmt.Sprintf("(fp.add RNE %s %s)", a.S, b.S), Sort: a.Sort, T: rt}
		case token.SUB:
			return Term{S: fmt.Sprintf("(fp.sub RNE %s %s)", a.S, b.S), Sort: a.Sort, T: rt}
		case token.MUL:
			return Term{S: fmt.Sprintf("(fp.mul RNE %s %s)", a.S, b.S), Sort: a.Sort, T: rt}
		case token.QUO:
			return Term{S: fmt.Sprintf("(fp.div RNE %s %s)", a.S, b.S), Sort: a.Sort, T: rt}
		}
	case a.Sort == SInt && isStringT(x.X.Type()):
		switch x.Op {
		case token.ADD:
			return Term{S: fmt.Sprintf("(strcat %s %s)", a.S, b.S), Sort: SInt, T: rt}
		case token.LSS:
			return Term{S: fmt.Sprintf("(strlt %s %s)", a.S, b.S), Sort: SBool, T: rt}
		case token.GTR:
			return Term{S: fmt.Sprintf("(strlt %s %s)", b.S, a.S), Sort: SBool, T: rt}
		case token.LEQ:
			return Term{S: fmt.Sprintf("(not (strlt %s %s))", b.S, a.S), Sort: SBool, T: rt}
		case token.GEQ:
			return Term{S: fmt.Sprintf("(not (strlt %s %s))", a.S, b.S), Sort: SBool, T: rt}
		}
	case a.Sort == SInt:
		return c.intBinop(fr, guard, x, a, b)
	default:
		if w, ok := isBV(a.Sort); ok {
			return c.bvBinop(fr, guard, x, a, b, w)
		}
	}
	c.fail("unsupported binop %s on %s", x.Op, a.Sort)
	return Term{}
}

func isStringT(t types.Type) bool {
	b, ok := t.Underlying().(*types.Basic)
	return ok && b.Info()&types.IsString != 0
}

func (c *FnCtx) intBinop(fr *frame, guard string, x *ssa.BinOp, a, b Term) Term {
	rt := x.Type()
	mk := func(s string) Term { return Term{S: s, Sort: SInt, T: rt} }
	_, signed, _, _ := intWidth(x.X.Type())
	w, _, _, _ := intWidth(x.X.Type())
	switch x.Op {
	case token.LSS:
		return Term{S: fmt.Sprintf("(< %s %s)", a.S, b.S), Sort: SBool, T: rt}
	case token.LEQ:
		return Term{S: fmt.Sprintf("(<= %s %s)", a.S, b.S), Sort: SBool, T: rt}
	case token.GTR:
		return Term{S: fmt.Sprintf("(> %s %s)", a.S, b.S), Sort: SBool, T: rt}
	case token.GEQ:
		return Term{S: fmt.Sprintf("(>= %s %s)", a.S, b.S), Sort: SBool, T: rt}
	case token.ADD, token.SUB, token.MUL:
		op := map[token.Token]string{token.ADD: "+", token.SUB: "-", token.MUL: "*"}[x.Op]
		r := fmt.Sprintf("(%s %s %s)", op, a.S, b.S)
		if c.prof.NoWrapChecks {
			// no no-wrap obligation in this profile: use the exact machine result instead
			return mk(c.wrapInt(r, rt))
		}
		c.nowrap(guard, x, r)
		return mk(c.define("ar", SInt, r)) // named: keeps quantifier triggers free of nested arithmetic
	case token.QUO, token.REM:
		c.oblige("divzero", "divzero@"+x.Name(), guard, fmt.Sprintf("(not (= %s 0))", b.S), "division by zero")
		if !signed {
			if x.Op == token.QUO {
				return mk(fmt.Sprintf("(div %s %s)", a.S, b.S))
			}
			return mk(fmt.Sprintf("(mod %s %s)", a.S, b.S))
		}
		q := fmt.Sprintf("(ite (>= %s 0) (ite (> %s 0) (div %s %s) (- (div %s (- %s)))) (ite (> %s 0) (- (div (- %s) %s)) (div (- %s) (- %s))))", a.S, b.S, a.S, b.S, a.S, b.S, b.S, a.S, b.S, a.S, b.S)
		if x.Op == token.QUO {
			return mk(q)
		}
		return mk(fmt.Sprintf("(- %s (* %s %s))", a.S, b.S, q))
	case token.SHL:
		if k, ok := constBig(x.Y); ok {
			r := fmt.Sprintf("(* %s %s)", a.S, pow2(int(k.Int64())))
			c.nowrap(guard, x, r)
			return mk(r)
		}
	case token.SHR:
		if k, ok := constBig(x.Y); ok && !signed {
			return mk(fmt.Sprintf("(div %s %s)", a.S, pow2(int(k.Int64()))))
		}
	case token.AND:
		if k, ok := constBig(x.Y); ok {
			return mk(c.andConst(a.S, k, w, signed))
		}
		if k, ok := constBig(x.X); ok {
			return mk(c.andConst(b.S, k, w, signed))
		}
	case token.AND_NOT:
		if k, ok := constBig(x.Y); ok && !signed {
			return mk(fmt.Sprintf("(- %s %s)", a.S, c.andConst(a.S, k, w, signed)))
		}
	case token.OR:
		if k, ok := constBig(x.Y); ok && !signed {
			if p, ok := isPow2(k); ok {
				return mk(fmt.Sprintf("(+ %s (* %s (- 1 (mod (div %s %s) 2))))", a.S, pow2(p), a.S, pow2(p)))
			}
		}
	case token.XOR:
		if k, ok := constBig(x.Y); ok && !signed {
			if p, ok := isPow2(k); ok {
				return mk(fmt.Sprintf("(+ %s (* %s (- 1 (* 2 (mod (div %s %s) 2)))))", a.S, pow2(p), a.S, pow2(p)))
			}
		}
	}
	// uninterpreted fallback (sound, imprecise)
	fn := "uf_" + map[token.Token]string{token.AND: "and", token.OR: "or", token.XOR: "xor", token.SHL: "shl", token.SHR: "shr", token.AND_NOT: "andnot"}[x.Op]
	if fn == "uf_" {
		c.fail("unsupported int binop %s", x.Op)
	}
	c.eng.declareFun(fn, "(Int Int) Int")
	t := mk(fmt.Sprintf("(%s %s %s)", fn, a.S, b.S))
	t = c.named(t, "uf")
	lo, hi, _ := intRange(rt)
	c.assume("", fmt.Sprintf("(and (<= %s %s) (<= %s %s))", lo, t.S, t.S, hi))
	return t
}

// andConst: x & k for unsigned (non-negative) x and constant k.
func (c *FnCtx) andConst(x string, k *big.Int, w int, signed bool) string {
	if k.Sign() == 0 {
		return "0"
	}
	if p, ok := isPow2(k); ok {
		return fmt.Sprintf("(* %s (mod (div %s %s) 2))", pow2(p), x, pow2(p))
	}
	k1 := new(big.Int).Add(k, big.NewInt(1))
	if p, ok := isPow2(k1); ok { // low mask
		return fmt.Sprintf("(mod %s %s)", x, pow2(p))
	}
	// complement of a single bit within width w
	full := new(big.Int).Sub(new(big.Int).Lsh(big.NewInt(1), uint(w)), big.NewInt(1))
	comp := new(big.Int).Xor(full, k)
	if p, ok := isPow2(comp); ok && !signed {
		return fmt.Sprintf("(- %s (* %s (mod (div %s %s) 2)))", x, pow2(p), x, pow2(p))
	}
	c.eng.declareFun("uf_and", "(Int Int) Int")
	return fmt.Sprintf("(uf_and %s %s)", x, k.String())
}

func (c *FnCtx) bvBinop(fr *frame, guard string, x *ssa.BinOp, a, b Term, w int) Term {
	rt := x.Type()
	_, signed, _, _ := intWidth(x.X.Type())
	mk := func(op string) Term { return Term{S: fmt.Sprintf("(%s %s %s)", op, a.S, b.S), Sort: a.Sort, T: rt} }
	cmp := func(u, s string) Term {
		op := u
		if signed {
			op = s
		}
		return Term{S: fmt.Sprintf("(%s %s %s)", op, a.S, b.S), Sort: SBool, T: rt}
	}
	// shift amounts may have a different width
	if x.Op == token.SHL || x.Op == token.SHR {
		bw, isbv := isBV(b.Sort)
		if cst, ok := x.Y.(*ssa.Const); ok && !isbv && cst.Value != nil && cst.Int64() >= 0 {
			// constant shift amount of type int (mathematical in this mode): a literal of the operand's width
			// (an amount >= the width gives 0 in Go and in bvshl/bvlshr alike; bvashr fills with the sign as Go does)
			amt := cst.Int64()
			if amt > int64(w) {
				amt = int64(w)
			}
			b = Term{S: fmt.Sprintf("(_ bv%d %d)", amt, w), Sort: a.Sort, T: b.T}
			bw, isbv = w, true
		}
		if !isbv {
			c.fail("shift by Int-sorted amount in bv mode")
		}
		if bw < w {
			b.S = fmt.Sprintf("((_ zero_extend %d) %s)", w-bw, b.S)
		} else if bw > w {
			c.fail("shift amount wider than operand")
		}
	}
	switch x.Op {
	case token.ADD:
		return mk("bvadd")
	case token.SUB:
		return mk("bvsub")
	case token.MUL:
		return mk("bvmul")
	case token.AND:
		return mk("bvand")
	case token.OR:
		return mk("bvor")
	case token.XOR:
		return mk("bvxor")
	case token.AND_NOT:
		return Term{S: fmt.Sprintf("(bvand %s (bvnot %s))", a.S, b.S), Sort: a.Sort, T: rt}
	case token.SHL:
		return mk("bvshl")
	case token.SHR:
		if signed {
			return mk("bvashr")
		}
		return mk("bvlshr")
	case token.QUO:
		c.oblige("divzero", "divzero@"+x.Name(), guard, fmt.Sprintf("(not (= %s (_ bv0 %d)))", b.S, w), "division by zero")
		if signed {
			return mk("bvsdiv")
		}
		return mk("bvudiv")
	case token.REM:
		c.oblige("divzero", "divzero@"+x.Name(), guard, fmt.Sprintf("(not (= %s (_ bv0 %d)))", b.S, w), "division by zero")
		if signed {
			return mk("bvsrem")
		}
		return mk("bvurem")
	case token.LSS:
		return cmp("bvult", "bvslt")
	case token.LEQ:
		return cmp("bvule", "bvsle")
	case token.GTR:
		return cmp("bvugt", "bvsgt")
	case token.GEQ:
		return cmp("bvuge", "bvsge")
	}
	c.fail("unsupported bv binop %s", x.Op)
	return Term{}
}

func isRuneSlice(t types.Type) bool {
	sl, ok := t.Underlying().(*types.Slice)
	if !ok {
		return false
	}
	b, ok := sl.Elem().Underlying().(*types.Basic)
	return ok && b.Kind() == types.Int32
}

func (c *FnCtx) convert(fr *frame, st *State, guard string, x *ssa.Convert) Term {
	a := c.val(fr, x.X)
	from, to := x.X.Type(), x.Type()
	tsort := c.sortOf(to)
	fw, fsigned, _, fint := intWidth(from)
	tw, tsigned, _, tint := intWidth(to)
	switch {
	case fint && tint:
		aw, abv := isBV(a.Sort)
		_, tbv := isBV(tsort)
		switch {
		case abv && tbv:
			switch {
			case tw == aw:
				return Term{S: a.S, Sort: tsort, T: to}
			case tw < aw:
				return Term{S: fmt.Sprintf("((_ extract %d 0) %s)", tw-1, a.S), Sort: tsort, T: to}
			case fsigned:
				return Term{S: fmt.Sprintf("((_ sign_extend %d) %s)", tw-aw, a.S), Sort: tsort, T: to}
			default:
				return Term{S: fmt.Sprintf("((_ zero_extend %d) %s)", tw-aw, a.S), Sort: tsort, T: to}
			}
		case abv && !tbv: // bv -> Int (int/uint)
			return Term{S: c.bv2int(a.S, aw, fsigned), Sort: SInt, T: to}
		case !abv && tbv: // Int -> bv
			return Term{S: fmt.Sprintf("((_ int2bv %d) %s)", tw, a.S), Sort: tsort, T: to}
		default: // Int -> Int: exact wrap semantics when the source range does not fit
			fits := false
			if fsigned == tsigned && tw >= fw {
				fits = true
			}
			if !fsigned && tsigned && tw > fw {
				fits = true
			}
			if fits {
				return Term{S: a.S, Sort: SInt, T: to}
			}
			var r string
			if tsigned {
				r = fmt.Sprintf("(- (mod (+ %s %s) %s) %s)", a.S, pow2(tw-1), pow2(tw), pow2(tw-1))
			} else {
				r = fmt.Sprintf("(mod %s %s)", a.S, pow2(tw))
			}
			t := c.named(Term{S: r, Sort: SInt, T: to}, "cv")
			// help the solver: identity when in range
			lo, hi, _ := intRange(to)
			c.assume("", fmt.Sprintf("(=> (and (<= %s %s) (<= %s %s)) (= %s %s))", lo, a.S, a.S, hi, t.S, a.S))
			return t
		}
	case isStringT(to) && isByteSlice(from):
		// string(bytes): fresh canonical id with the slice's content
		id := c.fresh("str", SInt)
		reg := c.elemRegion(from.Underlying().(*types.Slice).Elem())
		c.assume("", fmt.Sprintf("(and (<= 0 %s) (= (strlen %s) %s))", id, id, slLen(a.S)))
		bsel := fmt.Sprintf("(select (select %s %s) (+ %s i))", c.get(st, reg), slArr(a.S), slOff(a.S))
		c.assume("", fmt.Sprintf("(forall ((i Int)) (! (=> (and (<= 0 i) (< i %s)) (= (strat %s i) %s)) :pattern ((strat %s i))))", slLen(a.S), id, c.byteToInt(bsel), id))
		return Term{S: id, Sort: SInt, T: to}
	case isByteSlice(to) && isStringT(from):
		et := to.Underlying().(*types.Slice).Elem()
		reg := c.elemRegion(et)
		r := c.newRef(st, guard)
		arr := c.fresh("sbytes", fmt.Sprintf("(Array Int %s)", c.sortOf(et)))
		c.assume("", fmt.Sprintf("(forall ((i Int)) (! (=> (and (<= 0 i) (< i (strlen %s))) (= %s (strat %s i))) :pattern ((select %s i))))", a.S, c.byteToInt(fmt.Sprintf("(select %s i)", arr)), a.S, arr))
		c.set(st, reg, fmt.Sprintf("(store %s %s %s)", c.get(st, reg), r, arr))
		ln := fmt.Sprintf("(strlen %s)", a.S)
		return Term{S: mkSlice(r, "0", ln, ln), Sort: SSlice, T: to}
	case isStringT(to) && isStringT(from):
		return Term{S: a.S, Sort: SInt, T: to}
	case isRuneSlice(to) && isStringT(from):
		// []rune(s): UTF-8 decoding is not modelled; sound over-approximation: a fresh slice with arbitrary
		// contents and a length between 0 and len(s)
		et := to.Underlying().(*types.Slice).Elem()
		reg := c.elemRegion(et)
		r := c.newRef(st, guard)
		arr := c.fresh("srunes", fmt.Sprintf("(Array Int %s)", c.sortOf(et)))
		c.set(st, reg, fmt.Sprintf("(store %s %s %s)", c.get(st, reg), r, arr))
		ln := c.fresh("nrunes", SInt)
		c.assume("", fmt.Sprintf("(and (<= 0 %s) (<= %s (strlen %s)))", ln, ln, a.S))
		return Term{S: mkSlice(r, "0", ln, ln), Sort: SSlice, T: to}
	case isStringT(to) && isRuneSlice(from):
		// string(runes): a fresh string of arbitrary content, at most 4 bytes per rune
		id := c.fresh("str", SInt)
		c.assume("", fmt.Sprintf("(and (<= 0 %s) (<= 0 (strlen %s)) (<= (strlen %s) (* 4 %s)))", id, id, id, slLen(a.S)))
		return Term{S: id, Sort: SInt, T: to}
	case fint && (tsort == SFP32 || tsort == SFP64):
		eb, sb := 8, 24
		if tsort == SFP64 {
			eb, sb = 11, 53
		}
		if _, abv := isBV(a.Sort); abv {
			if fsigned {
				return Term{S: fmt.Sprintf("((_ to_fp %d %d) RNE %s)", eb, sb, a.S), Sort: tsort, T: to}
			}
			return Term{S: fmt.Sprintf("((_ to_fp_unsigned %d %d) RNE %s)", eb, sb, a.S), Sort: tsort, T: to}
		}
		return Term{S: fmt.Sprintf("((_ to_fp %d %d) RNE (to_real %s))", eb, sb, a.S), Sort: tsort, T: to}
	case (a.Sort == SFP32 || a.Sort == SFP64) && (tsort == SFP32 || tsort == SFP64):
		if a.Sort == tsort {
			return Term{S: a.S, Sort: tsort, T: to}
		}
		eb, sb := 8, 24
		if tsort == SFP64 {
			eb, sb = 11, 53
		}
		return Term{S: fmt.Sprintf("((_ to_fp %d %d) RNE %s)", eb, sb, a.S), Sort: tsort, T: to}
	case (a.Sort == SFP32 || a.Sort == SFP64) && tint:
		// float -> integer: left uninterpreted (an arbitrary value of the target type)
		t := Term{S: c.fresh("f2i", tsort), Sort: tsort, T: to}
		c.typeFacts(st, t, to)
		return t
	case a.Sort == SInt && tsort == SInt:
		// pointer <-> unsafe.Pointer etc.
		return Term{S: a.S, Sort: SInt, T: to}
	}
	c.fail("unsupported conversion %s -> %s", from, to)
	return Term{}
}

func isByteSlice(t types.Type) bool {
	s, ok := t.Underlying().(*types.Slice)
	if !ok {
		return false
	}
	b, ok := s.Elem().Underlying().(*types.Basic)
	return ok && b.Kind() == types.Uint8
}

// byteToInt converts a byte-sorted term to Int (strings carry Int content).
func (c *FnCtx) byteToInt(s string) string {
	return s // strat has the byte sort of the mode
}
