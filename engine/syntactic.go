package main

// Syntactic (whole-module) obligations computed from SSA on every run.
//
//   callers-only:<callee key> <= <caller key>,<caller key>...   every static call site of callee lies in one of the callers
//   const:<pkg path>.<Name>=<value>                              a package-level constant has the recorded value

import (
	"fmt"
	"go/constant"
	"go/types"
	"os/exec"
	"sort"
	"strings"
	"time"
	"context"

	"golang.org/x/tools/go/ssa"
	"golang.org/x/tools/go/ssa/ssautil"
)

func runSyntactic(cfg *PropConfig, run *PropRun) (int, []Failure) {
	var fails []Failure
	total := 0
	var allFns []*ssa.Function
	if len(cfg.Syntactic) > 0 {
		for fn := range ssautil.AllFunctions(run.Eng.prog) {
			allFns = append(allFns, fn)
		}
	}
	for _, s := range cfg.Syntactic {
		total++
		switch {
		case strings.HasPrefix(s, "callers-only:"):
			body := strings.TrimPrefix(s, "callers-only:")
			parts := strings.SplitN(body, "<=", 2)
			callee := expandKey(strings.TrimSpace(parts[0]))
			allowed := map[string]bool{}
			for _, a := range strings.Split(parts[1], ",") {
				allowed[expandKey(strings.TrimSpace(a))] = true
			}
			if run.Eng.findFunc(callee) == nil {
				fails = append(fails, Failure{Family: "syntactic/" + s, Err: "contract unbound: " + callee + " not found"})
				continue
			}
			var bad []string
			for _, fn := range allFns {
				if fn.Pkg == nil || !strings.HasPrefix(fn.Pkg.Pkg.Path(), libPrefix) {
					continue
				}
				for _, b := range fn.Blocks {
					for _, ins := range b.Instrs {
						ci, ok := ins.(ssa.CallInstruction)
						if !ok {
							continue
						}
						if sc := ci.Common().StaticCallee(); sc != nil && funcKey(sc) == callee {
							caller := funcKey(fn)
							if fn.Parent() != nil {
								caller = funcKey(fn.Parent())
							}
							if !allowed[caller] {
								bad = append(bad, caller)
							}
						}
					}
				}
			}
			if len(bad) > 0 {
				sort.Strings(bad)
				fails = append(fails, Failure{Family: "syntactic/" + s, Err: fmt.Sprintf("unexpected callers of %s: %s", callee, strings.Join(bad, ", "))})
			}
		case strings.HasPrefix(s, "const:"):
			body := strings.TrimPrefix(s, "const:")
			kv := strings.SplitN(body, "=", 2)
			i := strings.LastIndex(kv[0], ".")
			pk := run.Eng.spkgs[expandKey(kv[0][:i])]
			ok := false
			if pk != nil {
				if c, isC := pk.Members[kv[0][i+1:]].(*ssa.NamedConst); isC {
					v := c.Value.Value
					if v.Kind() == constant.Bool {
						ok = fmt.Sprint(constant.BoolVal(v)) == kv[1]
					} else {
						ok = v.ExactString() == kv[1]
					}
				}
			}
			if !ok {
				fails = append(fails, Failure{Family: "syntactic/" + s, Err: "constant does not have the recorded value (branches pruned on it are no longer dead)"})
			}
		case strings.HasPrefix(s, "field-access:"):
			// field-access:<pkg>::<Type>.<field> <= f1,f2 : the field is read or written only inside the listed functions
			body := strings.TrimPrefix(s, "field-access:")
			parts := strings.SplitN(body, "<=", 2)
			target := expandKey(strings.TrimSpace(parts[0]))
			i := strings.LastIndex(target, ".")
			tkey, fname := target[:i], target[i+1:]
			allowed := map[string]bool{}
			for _, a := range strings.Split(parts[1], ",") {
				allowed[expandKey(strings.TrimSpace(a))] = true
			}
			var bad []string
			found := false
			for _, fn := range allFns {
				if fn.Pkg == nil || !strings.HasPrefix(fn.Pkg.Pkg.Path(), libPrefix) {
					continue
				}
				for _, b := range fn.Blocks {
					for _, ins := range b.Instrs {
						var st types.Type
						var fi int
						switch x := ins.(type) {
						case *ssa.FieldAddr:
							st, fi = derefT(x.X.Type()), x.Field
						case *ssa.Field:
							st, fi = x.X.Type(), x.Field
						default:
							continue
						}
						n, ok := st.(*types.Named)
						if !ok || n.Obj().Pkg() == nil {
							continue
						}
						if n.Obj().Pkg().Path()+"::"+n.Obj().Name() != tkey {
							continue
						}
						if st.Underlying().(*types.Struct).Field(fi).Name() != fname {
							continue
						}
						found = true
						caller := funcKey(fn)
						if fn.Parent() != nil {
							caller = funcKey(fn.Parent())
						}
						if !allowed[caller] {
							bad = append(bad, caller)
						}
					}
				}
			}
			if !found {
				fails = append(fails, Failure{Family: "syntactic/" + s, Err: "contract unbound: field " + target + " is never accessed"})
			} else if len(bad) > 0 {
				sort.Strings(bad)
				fails = append(fails, Failure{Family: "syntactic/" + s, Err: fmt.Sprintf("field %s accessed outside the allowed functions: %s", target, strings.Join(bad, ", "))})
			}
		case strings.HasPrefix(s, "atomic-only:"):
			// atomic-only:<func key>:<struct field> : inside the function every access to the named field of its
			// struct goes through package sync/atomic (the field address is only ever an argument of an atomic call):
			// no plain load or store that could race with a concurrent atomic update
			body := strings.TrimPrefix(s, "atomic-only:")
			k := strings.LastIndex(body, ":")
			fkey, field := expandKey(body[:k]), body[k+1:]
			fn := run.Eng.findFunc(fkey)
			if fn == nil || len(fn.Blocks) == 0 {
				fails = append(fails, Failure{Family: "syntactic/" + s, Err: "contract unbound: " + fkey + " not found"})
				continue
			}
			found, bad := false, ""
			for _, b := range fn.Blocks {
				for _, ins := range b.Instrs {
					fa, ok := ins.(*ssa.FieldAddr)
					if !ok {
						if f2, ok2 := ins.(*ssa.Field); ok2 {
							if st, ok3 := f2.X.Type().Underlying().(*types.Struct); ok3 && st.Field(f2.Field).Name() == field {
								found, bad = true, "plain read of the field at "+run.Eng.prog.Fset.Position(f2.Pos()).String()
							}
						}
						continue
					}
					st, ok := derefT(fa.X.Type()).Underlying().(*types.Struct)
					if !ok || st.Field(fa.Field).Name() != field {
						continue
					}
					found = true
					for _, ref := range *fa.Referrers() {
						call, isCall := ref.(*ssa.Call)
						if _, isDbg := ref.(*ssa.DebugRef); isDbg {
							continue
						}
						if !isCall || call.Common().StaticCallee() == nil || call.Common().StaticCallee().Pkg == nil || call.Common().StaticCallee().Pkg.Pkg.Path() != "sync/atomic" {
							bad = "non-atomic use of the field at " + run.Eng.prog.Fset.Position(ref.Pos()).String()
						}
					}
				}
			}
			if !found {
				fails = append(fails, Failure{Family: "syntactic/" + s, Err: "contract unbound: field " + field + " is not accessed in " + fkey})
			} else if bad != "" {
				fails = append(fails, Failure{Family: "syntactic/" + s, Err: bad})
			}
		case strings.HasPrefix(s, "mutex-guarded:"):
			// mutex-guarded:<func key>:<field> : the body starts with recv.<field>.Lock(); defer recv.<field>.Unlock()
			// and contains no other Lock/Unlock of that mutex
			body := strings.TrimPrefix(s, "mutex-guarded:")
			k := strings.LastIndex(body, ":")
			fkey, field := expandKey(body[:k]), body[k+1:]
			fn := run.Eng.findFunc(fkey)
			if fn == nil || len(fn.Blocks) == 0 {
				fails = append(fails, Failure{Family: "syntactic/" + s, Err: "contract unbound: " + fkey + " not found"})
				continue
			}
			isMutexCall := func(cc *ssa.CallCommon, method string) bool {
				sc := cc.StaticCallee()
				if sc == nil || sc.String() != "(*sync.Mutex)."+method || len(cc.Args) != 1 {
					return false
				}
				ld, ok := cc.Args[0].(*ssa.UnOp)
				if !ok {
					return false
				}
				fa, ok := ld.X.(*ssa.FieldAddr)
				if !ok {
					return false
				}
				return derefT(fa.X.Type()).Underlying().(*types.Struct).Field(fa.Field).Name() == field && fa.X == fn.Params[0]
			}
			locks, unlocks, deferred := 0, 0, 0
			firstOK := false
			seenOther := false
			for bi, b := range fn.Blocks {
				for _, ins := range b.Instrs {
					switch x := ins.(type) {
					case *ssa.Call:
						if isMutexCall(x.Common(), "Lock") {
							locks++
							if bi == 0 && !seenOther {
								firstOK = true
							}
						} else if isMutexCall(x.Common(), "Unlock") {
							unlocks++
						} else {
							seenOther = true
						}
					case *ssa.Defer:
						if isMutexCall(x.Common(), "Unlock") && bi == 0 {
							deferred++
						}
					case *ssa.Store, *ssa.MapUpdate:
						seenOther = true
					}
				}
			}
			if !(locks == 1 && firstOK && deferred == 1 && unlocks == 0) {
				fails = append(fails, Failure{Family: "syntactic/" + s, Err: fmt.Sprintf("body of %s is not one critical section of %s (Lock calls %d, first=%v, deferred Unlock %d, direct Unlock %d)", fkey, field, locks, firstOK, deferred, unlocks)})
			}
		default:
			fails = append(fails, Failure{Family: "syntactic/" + s, Err: "unknown syntactic obligation"})
		}
	}
	return total, fails
}

func runShell(cmd string, timeoutS int) (string, error) {
	ctx, cancel := context.WithTimeout(context.Background(), time.Duration(timeoutS)*time.Second)
	defer cancel()
	c := exec.CommandContext(ctx, "bash", "-c", cmd)
	out, err := c.CombinedOutput()
	return string(out), err
}
