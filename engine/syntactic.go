package main

// Syntactic (whole-module) obligations computed from SSA on every run.
//
//   callers-only:<callee key> <= <caller key>,<caller key>...   every static call site of callee lies in one of the callers
//   const:<pkg path>.<Name>=<value>                              a package-level constant has the recorded value

import (
	"fmt"
	"go/constant"
	"os/exec"
	"sort"
	"strings"
	"time"
	"context"

	"golang.org/x/tools/go/ssa"
	"golang.org/x/tools/go/ssa/ssautil"
)

func runSyntactic(cfg *PropConfig, run *PropRun) (int, []Failure) {
	var fails []Failure
	total := 0
	var allFns []*ssa.Function
	if len(cfg.Syntactic) > 0 {
		for fn := range ssautil.AllFunctions(run.Eng.prog) {
			allFns = append(allFns, fn)
		}
	}
	for _, s := range cfg.Syntactic {
		total++
		switch {
		case strings.HasPrefix(s, "callers-only:"):
			body := strings.TrimPrefix(s, "callers-only:")
			parts := strings.SplitN(body, "<=", 2)
			callee := expandKey(strings.TrimSpace(parts[0]))
			allowed := map[string]bool{}
			for _, a := range strings.Split(parts[1], ",") {
				allowed[expandKey(strings.TrimSpace(a))] = true
			}
			if run.Eng.findFunc(callee) == nil {
				fails = append(fails, Failure{Family: "syntactic/" + s, Err: "contract unbound: " + callee + " not found"})
				continue
			}
			var bad []string
			for _, fn := range allFns {
				if fn.Pkg == nil || !strings.HasPrefix(fn.Pkg.Pkg.Path(), libPrefix) {
					continue
				}
				for _, b := range fn.Blocks {
					for _, ins := range b.Instrs {
						ci, ok := ins.(ssa.CallInstruction)
						if !ok {
							continue
						}
						if sc := ci.Common().StaticCallee(); sc != nil && funcKey(sc) == callee {
							caller := funcKey(fn)
							if fn.Parent() != nil {
								caller = funcKey(fn.Parent())
							}
							if !allowed[caller] {
								bad = append(bad, caller)
							}
						}
					}
				}
			}
			if len(bad) > 0 {
				sort.Strings(bad)
				fails = append(fails, Failure{Family: "syntactic/" + s, Err: fmt.Sprintf("unexpected callers of %s: %s", callee, strings.Join(bad, ", "))})
			}
		case strings.HasPrefix(s, "const:"):
			body := strings.TrimPrefix(s, "const:")
			kv := strings.SplitN(body, "=", 2)
			i := strings.LastIndex(kv[0], ".")
			pk := run.Eng.spkgs[expandKey(kv[0][:i])]
			ok := false
			if pk != nil {
				if c, isC := pk.Members[kv[0][i+1:]].(*ssa.NamedConst); isC {
					v := c.Value.Value
					if v.Kind() == constant.Bool {
						ok = fmt.Sprint(constant.BoolVal(v)) == kv[1]
					} else {
						ok = v.ExactString() == kv[1]
					}
				}
			}
			if !ok {
				fails = append(fails, Failure{Family: "syntactic/" + s, Err: "constant does not have the recorded value (branches pruned on it are no longer dead)"})
			}
		default:
			fails = append(fails, Failure{Family: "syntactic/" + s, Err: "unknown syntactic obligation"})
		}
	}
	return total, fails
}

func runShell(cmd string, timeoutS int) (string, error) {
	ctx, cancel := context.WithTimeout(context.Background(), time.Duration(timeoutS)*time.Second)
	defer cancel()
	c := exec.CommandContext(ctx, "bash", "-c", cmd)
	out, err := c.CombinedOutput()
	return string(out), err
}
