package main

import (
	"encoding/json"
	"flag"
	"fmt"
	"os"
	"path/filepath"
	"regexp"
	"sort"
	"strings"
	"time"
)

type PropConfig struct {
	ID           string   `json:"id"`
	Profile      string   `json:"profile"`
	Mode         string   `json:"mode"`
	Packages     []string `json:"packages"`
	Prelude      []string `json:"prelude"`
	Lemmas       []string `json:"lemmas"`
	DefaultHavoc bool     `json:"default_havoc"`
	IgnorePanics bool     `json:"ignore_panics"`
	NoNilChecks  bool     `json:"no_nil_checks"`
	NoWrapChecks bool     `json:"no_wrap_checks"`
	NoBounds     bool     `json:"no_bounds"`
	AutoRequires []string `json:"auto_requires"`
	AutoEnsures  []string `json:"auto_ensures"`
	Primitives   []string `json:"primitives"`
	AutoLoopInv  []string `json:"auto_loop_invariants"`
	AutoModifies []string `json:"auto_modifies"`
	Inline       []string `json:"inline"`
	Noop         []string `json:"noop"`
	Tracked      []string `json:"tracked"`
	Structs      []string `json:"structs"`
	Syntactic    []string `json:"syntactic"`
	Required     []string `json:"required_functions"`
	TimeoutQuick int      `json:"timeout_quick"`
	TimeoutThorough int   `json:"timeout_thorough"`
	Assumptions  []string `json:"assumptions"`
	TrustedBase  []string `json:"trusted_base"`
	LevelText    string   `json:"level_text"`
	Replay       string   `json:"replay"`
	Include      []string `json:"include"` // keep only obligations whose name matches one of these regexps (covers are always kept)
	Exclude      []string `json:"exclude"`
	Parts        []string `json:"parts"` // further profile configs (props/<name>.json) run as part of this property
	Guarded      map[string]GuardSpec `json:"guarded"` // lock discipline: heap region -> condition that must hold at every read / write of it (o = the owning object)
}

// GuardSpec: contract expressions over the ghost lock state; "o" is bound to the object whose field is accessed.
type GuardSpec struct {
	Read  string `json:"read"`
	Write string `json:"write"`
}

const lemmaPrelude = `(set-logic ALL)
(define-sort FP32 () (_ FloatingPoint 8 24))
(define-sort FP64 () (_ FloatingPoint 11 53))
`

const libPrefix = "github.com/ryogrid/SamehadaDB/lib/"

func expandKey(k string) string {
	if strings.HasPrefix(k, "lib/") {
		return libPrefix + strings.TrimPrefix(k, "lib/")
	}
	return k
}

func main() {
	if len(os.Args) < 2 {
		fmt.Println("usage: govc check <ID> [flags] | govc verify --config f [--func key]")
		os.Exit(2)
	}
	switch os.Args[1] {
	case "check":
		os.Exit(cmdCheck(os.Args[2:]))
	case "verify":
		os.Exit(cmdVerify(os.Args[2:]))
	default:
		fmt.Println("unknown command", os.Args[1])
		os.Exit(2)
	}
}

func loadConfig(path string) (*PropConfig, error) {
	data, err := os.ReadFile(path)
	if err != nil {
		return nil, err
	}
	var cfg PropConfig
	if err := json.Unmarshal(data, &cfg); err != nil {
		return nil, fmt.Errorf("%s: %v", path, err)
	}
	return &cfg, nil
}

func mkProfile(cfg *PropConfig) *Profile {
	p := &Profile{Name: cfg.Profile, DefaultHavoc: cfg.DefaultHavoc, IgnorePanics: cfg.IgnorePanics, NoNilChecks: cfg.NoNilChecks, NoWrapChecks: cfg.NoWrapChecks, NoBounds: cfg.NoBounds,
		Inline: map[string]bool{}, Noop: map[string]bool{}, Tracked: cfg.Tracked}
	if cfg.Mode == "bv" {
		p.Mode = ModeBV
	}
	for i, r := range cfg.AutoLoopInv {
		if n, err := ParseExpr(r); err == nil {
			p.AutoLoopInv = append(p.AutoLoopInv, Clause{Label: fmt.Sprintf("auto%d", i), E: n, Src: r})
		}
	}
	for _, k := range cfg.Inline {
		p.Inline[expandKey(k)] = true
	}
	for _, k := range cfg.Noop {
		p.Noop[expandKey(k)] = true
	}
	p.Guarded = map[string][2]*Node{}
	for reg, g := range cfg.Guarded {
		var pair [2]*Node
		if g.Read != "" {
			if n, err := ParseExpr(g.Read); err == nil {
				pair[0] = n
			} else {
				panic(err)
			}
		}
		if g.Write != "" {
			if n, err := ParseExpr(g.Write); err == nil {
				pair[1] = n
			} else {
				panic(err)
			}
		}
		p.Guarded[reg] = pair
	}
	return p
}

// cmdVerify: developer entry point — verify functions and print results.
func cmdVerify(args []string) int {
	fs := flag.NewFlagSet("verify", flag.ExitOnError)
	cfgPath := fs.String("config", "", "property config")
	only := fs.String("func", "", "only this function key (substring)")
	root := fs.String("root", "/repo/lib", "module root")
	timeout := fs.Int("timeout", 20, "per-obligation timeout (s)")
	dump := fs.Bool("dump", false, "keep query files and print paths")
	verbose := fs.Bool("v", false, "print every obligation")
	solver := fs.String("solver", "", "only this solver")
	fs.Parse(args)
	cfg, err := loadConfig(*cfgPath)
	if err != nil {
		fmt.Println(err)
		return 2
	}
	run, err := RunProperty(cfg, *root, RunOpts{Only: *only, TimeoutS: *timeout, Keep: *dump, Solver: *solver, Seed: 0})
	if err != nil {
		fmt.Println("ENGINE ERROR:", err)
		return 2
	}
	bad := 0
	for _, fr := range run.Funcs {
		status := "ok"
		nfail := 0
		for _, o := range fr.Obls {
			if !o.OK() {
				nfail++
			}
		}
		if fr.Err != "" {
			status = "ENGINE-ERROR: " + fr.Err
			bad++
		} else if nfail > 0 {
			status = fmt.Sprintf("FAILED %d/%d", nfail, len(fr.Obls))
			bad++
		}
		fmt.Printf("%-70s %4d obligations  %s\n", strings.TrimPrefix(fr.Key, libPrefix), len(fr.Obls), status)
		for _, o := range fr.Obls {
			if *verbose || !o.OK() {
				fmt.Printf("    %-60s %-8s %-7s %.2fs  [%s] %s\n", o.Name, o.Result, o.Solver, o.Time, o.Pos, trunc(o.Src, 80))
			}
		}
	}
	for _, l := range run.Lemmas {
		if *verbose || !l.OK() {
			fmt.Printf("lemma %-60s %-8s %-7s %.2fs\n", l.Name, l.Result, l.Solver, l.Time)
		}
		if !l.OK() {
			bad++
		}
	}
	if len(run.Uncovered) > 0 {
		fmt.Println("functions calling a primitive directly without a contract in this profile:", run.Uncovered)
	}
	fmt.Printf("total obligations %d, discharged %d, wall %.1fs, dir %s\n", run.Total, run.Discharged, run.Wall, run.Dir)
	if bad > 0 {
		return 1
	}
	return 0
}

func trunc(s string, n int) string {
	if len(s) > n {
		return s[:n] + "…"
	}
	return s
}

// OK: a proof obligation must be unsat; a cover (vacuity check) fails only when the
// solver refutes it (unsat) -- "unknown"/timeout on a model search is inconclusive.
func (o *Obl) OK() bool {
	if o.Expect == "sat" {
		return o.Result == "sat" || o.Result == "unknown" || o.Result == "timeout"
	}
	return o.Result == o.Expect
}

type RunOpts struct {
	Only     string
	TimeoutS int
	Keep     bool
	Solver   string
	Seed     int
	All      bool
}

type PropRun struct {
	Cfg        *PropConfig
	Eng        *Engine
	Funcs      []*FnResult
	Lemmas     []*Obl
	Total      int
	Discharged int
	Wall       float64
	Dir        string
	Trusted    []string
	Inlined    []string
	SolverTime map[string]float64
	SolverWins map[string]int
	Uncovered  []string
}

func RunProperty(cfg *PropConfig, root string, opts RunOpts) (*PropRun, error) {
	start := time.Now()
	eng, err := NewEngine(root, cfg.Packages, "verif")
	if err != nil {
		return nil, err
	}
	var pre []string
	for _, p := range cfg.Prelude {
		pre = append(pre, filepath.Join("/verif", p))
	}
	if err := eng.LoadPrelude(pre); err != nil {
		return nil, err
	}
	prof := mkProfile(cfg)
	eng.SetMode(prof.Mode)
	run := &PropRun{Cfg: cfg, Eng: eng, SolverTime: map[string]float64{}, SolverWins: map[string]int{}}
	// functions under contract in this profile
	var keys []string
	for k, cs := range eng.contracts {
		for _, c := range cs {
			if c.HasProfile(prof.Name) && !c.IsIface {
				keys = append(keys, k)
				break
			}
		}
	}
	sort.Strings(keys)
	// force-declare struct sorts the prelude mentions
	if len(cfg.Structs) > 0 {
		dummy := &FnCtx{eng: eng, mode: prof.Mode, prof: prof, regSort: map[string]string{}}
		for _, s := range cfg.Structs {
			i := strings.LastIndex(s, ".")
			pk := eng.spkgs[expandKey(s[:i])]
			if pk == nil {
				return nil, fmt.Errorf("struct %s: package not loaded", s)
			}
			obj := pk.Pkg.Scope().Lookup(s[i+1:])
			if obj == nil {
				return nil, fmt.Errorf("struct %s not found", s)
			}
			dummy.sortOf(obj.Type())
		}
	}
	for _, req := range cfg.Required {
		found := false
		for _, k := range keys {
			if k == expandKey(req) {
				found = true
			}
		}
		if !found {
			run.Funcs = append(run.Funcs, &FnResult{Key: expandKey(req), Err: "contract unbound: required function has no contract in profile " + prof.Name})
		}
	}
	// profile-wide clauses (e.g. the ghost invariant and ghost neutrality) are added to every
	// non-trusted contract of the profile before anything is verified
	for _, cs := range eng.contracts {
		for _, con := range cs {
			if !con.HasProfile(prof.Name) || con.Trusted || con.NoAuto || con.autoApplied {
				continue
			}
			con.autoApplied = true
			for i, r := range cfg.AutoRequires {
				n, err := ParseExpr(r)
				if err != nil {
					return nil, err
				}
				con.Requires = append(con.Requires, Clause{Label: fmt.Sprintf("auto%d", i), E: n, Src: r})
			}
			for i, r := range cfg.AutoEnsures {
				n, err := ParseExpr(r)
				if err != nil {
					return nil, err
				}
				con.Ensures = append(con.Ensures, Clause{Label: fmt.Sprintf("auto%d", i), E: n, Src: r})
			}
			if len(con.Modifies) == 0 && !con.ModAll && !con.ModNone {
				for _, r := range cfg.AutoModifies {
					n, err := ParseExpr(r)
					if err != nil {
						return nil, err
					}
					con.Modifies = append(con.Modifies, n)
				}
			}
		}
	}
	if len(cfg.Primitives) > 0 && opts.Only == "" {
		run.Funcs = append(run.Funcs, coverageClosure(eng, prof, cfg, keys)...)
		run.Uncovered = uncoveredReachers(eng, prof, cfg)
	}
	for _, k := range keys {
		if opts.Only != "" && !strings.Contains(k, opts.Only) {
			continue
		}
		con := eng.contractFor(k, prof)
		if con.Trusted {
			run.Trusted = append(run.Trusted, k)
			continue
		}
		if con.Inline {
			run.Inlined = append(run.Inlined, k)
			continue
		}
		fn := eng.findFunc(k)
		if fn == nil {
			run.Funcs = append(run.Funcs, &FnResult{Key: k, Err: "contract unbound: function not found"})
			continue
		}
		run.Funcs = append(run.Funcs, eng.VerifyFunction(fn, con, prof))
	}
	if len(cfg.Include) > 0 || len(cfg.Exclude) > 0 {
		var inc, exc []*regexp.Regexp
		for _, r := range cfg.Include {
			inc = append(inc, regexp.MustCompile(r))
		}
		for _, r := range cfg.Exclude {
			exc = append(exc, regexp.MustCompile(r))
		}
		for _, fr := range run.Funcs {
			var kept []*Obl
			// an included obligation of a function is proved under that function's loop invariants: keep the
			// obligations that establish them (inv-entry / inv-preserve) whenever anything of the function is kept
			anyIncluded := false
			for _, o := range fr.Obls {
				if o.Expect == "sat" {
					continue
				}
				full := strings.TrimPrefix(o.Func, libPrefix) + "/" + o.Name
				for _, r := range inc {
					if r.MatchString(full) {
						anyIncluded = true
					}
				}
			}
			for _, o := range fr.Obls {
				full := strings.TrimPrefix(o.Func, libPrefix) + "/" + o.Name
				keep := len(inc) == 0 || o.Expect == "sat"
				if anyIncluded && (strings.HasPrefix(o.Name, "inv-entry") || strings.HasPrefix(o.Name, "inv-preserve")) {
					keep = true
				}
				for _, r := range inc {
					if r.MatchString(full) {
						keep = true
					}
				}
				for _, r := range exc {
					if r.MatchString(full) {
						keep = false
					}
				}
				if keep {
					kept = append(kept, o)
				}
			}
			fr.Obls = kept
		}
	}
	dir, err := os.MkdirTemp("", "govc-"+cfg.ID+"-")
	if err != nil {
		return nil, err
	}
	run.Dir = dir
	header := eng.header()
	var all []*Obl
	for _, fr := range run.Funcs {
		all = append(all, fr.Obls...)
	}
	// lemmas: standalone SMT files (expected unsat) sharing the prelude
	if opts.Only == "" {
		for _, pat := range cfg.Lemmas {
			files, _ := filepath.Glob(filepath.Join("/verif", pat))
			sort.Strings(files)
			for _, f := range files {
				data, err := os.ReadFile(f)
				if err != nil {
					return nil, err
				}
				o := &Obl{Name: "lemma:" + filepath.Base(f), Kind: "lemma", Func: "spec", Expect: "unsat", Src: f, raw: header + string(data)}
				if strings.Contains(string(data), ";@expect sat") {
					o.Expect = "sat"
				}
				run.Lemmas = append(run.Lemmas, o)
				all = append(all, o)
			}
		}
	}
	SolveAll(all, header, SolveOpts{TimeoutS: opts.TimeoutS, Seed: opts.Seed, Dir: dir, Only: opts.Solver, All: opts.All}, 10)
	for _, o := range all {
		run.Total++
		if o.OK() {
			run.Discharged++
		}
		run.SolverTime[o.Solver] += o.Time
		run.SolverWins[o.Solver]++
	}
	run.Wall = time.Since(start).Seconds()
	if !opts.Keep {
		os.RemoveAll(dir)
	}
	return run, nil
}
