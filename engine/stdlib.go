package main

// Builtins and trusted models of standard-library functions.

import (
	"fmt"
	"go/types"
	"strings"

	"golang.org/x/tools/go/ssa"
)

func (c *FnCtx) builtin(fr *frame, st *State, guard string, site ssa.Instruction, b *ssa.Builtin, cc *ssa.CallCommon) interface{} {
	switch b.Name() {
	case "len":
		x := c.val(fr, cc.Args[0])
		switch u := cc.Args[0].Type().Underlying().(type) {
		case *types.Slice:
			return Term{S: slLen(x.S), Sort: SInt, T: types.Typ[types.Int]}
		case *types.Basic:
			return Term{S: fmt.Sprintf("(strlen %s)", x.S), Sort: SInt, T: types.Typ[types.Int]}
		case *types.Array:
			return Term{S: fmt.Sprint(u.Len()), Sort: SInt, T: types.Typ[types.Int]}
		case *types.Pointer:
			return Term{S: fmt.Sprint(u.Elem().Underlying().(*types.Array).Len()), Sort: SInt, T: types.Typ[types.Int]}
		case *types.Map:
			fnn := "maplen"
			c.eng.declareFun(fnn, "(Int Int) Int")
			t := Term{S: c.fresh("maplen", SInt), Sort: SInt, T: types.Typ[types.Int]}
			c.assume("", fmt.Sprintf("(<= 0 %s)", t.S))
			return t
		}
	case "cap":
		x := c.val(fr, cc.Args[0])
		return Term{S: slCap(x.S), Sort: SInt, T: types.Typ[types.Int]}
	case "append":
		s := c.val(fr, cc.Args[0])
		et := cc.Args[0].Type().Underlying().(*types.Slice).Elem()
		if len(cc.Args) == 1 {
			return s
		}
		src := c.val(fr, cc.Args[1])
		if isStringT(cc.Args[1].Type()) {
			return c.appendModel(st, s, et, nil, &src, true, cc.Args[0].Type())
		}
		return c.appendModel(st, s, et, nil, &src, false, cc.Args[0].Type())
	case "copy":
		d := c.val(fr, cc.Args[0])
		s := c.val(fr, cc.Args[1])
		et := cc.Args[0].Type().Underlying().(*types.Slice).Elem()
		return c.copyModel(st, d, s, et, isStringT(cc.Args[1].Type()))
	case "delete":
		m := c.val(fr, cc.Args[0])
		k := c.val(fr, cc.Args[1])
		mt := cc.Args[0].Type().Underlying().(*types.Map)
		d, _ := c.mapRegions(mt)
		cd := c.get(st, d)
		c.set(st, d, fmt.Sprintf("(store %s %s (store (select %s %s) %s false))", cd, m.S, cd, m.S, k.S))
		return nil
	case "print", "println":
		return nil
	case "min", "max":
		a, bb := c.val(fr, cc.Args[0]), c.val(fr, cc.Args[1])
		if a.Sort == SInt {
			op := "<="
			if b.Name() == "max" {
				op = ">="
			}
			return Term{S: fmt.Sprintf("(ite (%s %s %s) %s %s)", op, a.S, bb.S, a.S, bb.S), Sort: SInt, T: a.T}
		}
	}
	c.fail("unsupported builtin %s", b.Name())
	return nil
}

// appendModel: append(s, elems...) or append(s, src...).
func (c *FnCtx) appendModel(st *State, s Term, et types.Type, elems []Term, src *Term, srcIsString bool, rt types.Type) Term {
	reg := c.elemRegion(et)
	esort := c.sortOf(et)
	asort := fmt.Sprintf("(Array Int %s)", esort)
	A := c.get(st, reg)
	arr, off, ln, cp := c.define("ap_arr", SInt, slArr(s.S)), c.define("ap_off", SInt, slOff(s.S)), c.define("ap_len", SInt, slLen(s.S)), c.define("ap_cap", SInt, slCap(s.S))
	var n string
	if src != nil {
		if srcIsString {
			n = fmt.Sprintf("(strlen %s)", src.S)
		} else {
			n = slLen(src.S)
		}
		n = c.define("ap_n", SInt, n)
	} else {
		n = fmt.Sprint(len(elems))
	}
	inpl := c.define("ap_inplace", SBool, fmt.Sprintf("(<= (+ %s %s) %s)", ln, n, cp))
	nr := c.newRef(st, "")
	narr := c.define("ap_narr", SInt, fmt.Sprintf("(ite %s %s %s)", inpl, arr, nr))
	noff := c.define("ap_noff", SInt, fmt.Sprintf("(ite %s %s 0)", inpl, off))
	fc := c.fresh("ap_newcap", SInt)
	c.assume("", fmt.Sprintf("(>= %s (+ %s %s))", fc, ln, n))
	ncap := fmt.Sprintf("(ite %s %s %s)", inpl, cp, fc)
	oldA := c.define("ap_old", asort, fmt.Sprintf("(select %s %s)", A, arr))
	var srcAN string
	if src != nil && !srcIsString {
		srcAN = c.define("ap_src", asort, fmt.Sprintf("(select %s %s)", A, slArr(src.S)))
	}
	B0 := c.fresh("ap_base", asort)
	c.assume("", fmt.Sprintf("(forall ((j Int)) (! (and (=> %s (= (select %s j) (select %s j))) (=> (and (not %s) (<= 0 j) (< j %s)) (= (select %s j) (select %s (+ %s j))))) :pattern ((select %s j))))",
		inpl, B0, oldA, inpl, ln, B0, oldA, off, B0))
	// the same facts indexed from the source side (creates the new-array terms from old-array terms)
	c.assume("", fmt.Sprintf("(forall ((m Int)) (! (and (=> %s (= (select %s m) (select %s m))) (=> (and (not %s) (<= %s m) (< m (+ %s %s))) (= (select %s (- m %s)) (select %s m)))) :pattern ((select %s m))))",
		inpl, B0, oldA, inpl, off, off, ln, B0, off, oldA, oldA))
	var B string
	if src == nil {
		B = B0
		for i, e := range elems {
			B = fmt.Sprintf("(store %s (+ %s %s %d) %s)", B, noff, ln, i, e.S)
		}
	} else {
		B = c.fresh("ap_new", asort)
		var srcSel string
		if srcIsString {
			srcSel = fmt.Sprintf("(strat %s (- j (+ %s %s)))", src.S, noff, ln)
		} else {
			srcSel = fmt.Sprintf("(select %s (+ %s (- j (+ %s %s))))", srcAN, slOff(src.S), noff, ln)
		}
		c.assume("", fmt.Sprintf("(forall ((j Int)) (! (= (select %s j) (ite (and (<= (+ %s %s) j) (< j (+ %s %s %s))) %s (select %s j))) :pattern ((select %s j))))",
			B, noff, ln, noff, ln, n, srcSel, B0, B))
		c.assume("", fmt.Sprintf("(forall ((j Int)) (! (=> (not (and (<= (+ %s %s) j) (< j (+ %s %s %s)))) (= (select %s j) (select %s j))) :pattern ((select %s j))))",
			noff, ln, noff, ln, n, B, B0, B0))
		if !srcIsString {
			srcA := srcAN
			c.assume("", fmt.Sprintf("(forall ((m Int)) (! (=> (and (<= %s m) (< m (+ %s %s))) (= (select %s (+ %s %s (- m %s))) (select %s m))) :pattern ((select %s m))))",
				slOff(src.S), slOff(src.S), n, B, noff, ln, slOff(src.S), srcA, srcA))
		}
	}
	c.set(st, reg, fmt.Sprintf("(store %s %s %s)", A, narr, B))
	res := mkSlice(narr, noff, fmt.Sprintf("(+ %s %s)", ln, n), ncap)
	rt2 := Term{S: c.define("ap_res", SSlice, res), Sort: SSlice, T: rt}
	// consequences stated over the terms later readers use (chains of appends)
	newA := c.get(st, reg)
	rsel := fmt.Sprintf("(select %s (sl_arr %s))", newA, rt2.S)
	rsel = c.define("ap_resarr", asort, rsel)
	if src != nil && !srcIsString {
		srcA := srcAN
		c.assume("", fmt.Sprintf("(forall ((m Int)) (! (=> (and (<= %s m) (< m (+ %s %s))) (= (select %s (+ %s %s (- m %s))) (select %s m))) :pattern ((select %s m))))",
			slOff(src.S), slOff(src.S), n, rsel, noff, ln, slOff(src.S), srcA, srcA))
	}
	c.assume("", fmt.Sprintf("(forall ((m Int)) (! (and (=> (and %s (not (and (<= (+ %s %s) m) (< m (+ %s %s %s))))) (= (select %s m) (select %s m))) (=> (and (not %s) (<= %s m) (< m (+ %s %s))) (= (select %s (- m %s)) (select %s m)))) :pattern ((select %s m))))",
		inpl, noff, ln, noff, ln, n, rsel, oldA, inpl, off, off, ln, rsel, off, oldA, oldA))
	return rt2
}

func (c *FnCtx) copyModel(st *State, d, s Term, et types.Type, srcIsString bool) Term {
	reg := c.elemRegion(et)
	asort := fmt.Sprintf("(Array Int %s)", c.sortOf(et))
	A := c.get(st, reg)
	var slen string
	if srcIsString {
		slen = fmt.Sprintf("(strlen %s)", s.S)
	} else {
		slen = slLen(s.S)
	}
	n := c.define("cp_n", SInt, fmt.Sprintf("(ite (< %s %s) %s %s)", slLen(d.S), slen, slLen(d.S), slen))
	darr, doff := c.define("cp_darr", SInt, slArr(d.S)), c.define("cp_doff", SInt, slOff(d.S))
	B := c.fresh("cp_new", asort)
	var srcSel string
	if srcIsString {
		srcSel = fmt.Sprintf("(strat %s (- j %s))", s.S, doff)
	} else {
		srcSel = fmt.Sprintf("(select (select %s %s) (+ %s (- j %s)))", A, slArr(s.S), slOff(s.S), doff)
	}
	c.assume("", fmt.Sprintf("(forall ((j Int)) (! (= (select %s j) (ite (and (<= %s j) (< j (+ %s %s))) %s (select (select %s %s) j))) :pattern ((select %s j))))",
		B, doff, doff, n, srcSel, A, darr, B))
	c.assume("", fmt.Sprintf("(forall ((j Int)) (! (=> (not (and (<= %s j) (< j (+ %s %s)))) (= (select %s j) (select (select %s %s) j))) :pattern ((select (select %s %s) j))))",
		doff, doff, n, B, A, darr, A, darr))
	if !srcIsString {
		srcA := c.define("cp_src", asort, fmt.Sprintf("(select %s %s)", A, slArr(s.S)))
		c.assume("", fmt.Sprintf("(forall ((m Int)) (! (=> (and (<= %s m) (< m (+ %s %s))) (= (select %s (+ %s (- m %s))) (select %s m))) :pattern ((select %s m))))",
			slOff(s.S), slOff(s.S), n, B, doff, slOff(s.S), srcA, srcA))
	}
	c.set(st, reg, fmt.Sprintf("(store %s %s %s)", A, darr, B))
	return Term{S: n, Sort: SInt, T: types.Typ[types.Int]}
}

// ---------- encoding of fixed-size values into bytes ----------

// bytesOf returns the little-endian byte terms (least significant first) of an integer term.
func (c *FnCtx) bytesOf(v Term, t types.Type) []string {
	w, signed, _, ok := intWidth(t)
	if b, isb := t.Underlying().(*types.Basic); isb && b.Kind() == types.Bool {
		if c.mode == ModeBV {
			return []string{fmt.Sprintf("(ite %s #x01 #x00)", v.S)}
		}
		return []string{fmt.Sprintf("(ite %s 1 0)", v.S)}
	}
	if b, isb := t.Underlying().(*types.Basic); isb && b.Kind() == types.Float32 {
		bits := c.fresh("f32bits", bvSort(32))
		c.assume("", fmt.Sprintf("(= ((_ to_fp 8 24) %s) %s)", bits, v.S))
		var out []string
		for i := 0; i < 4; i++ {
			e := fmt.Sprintf("((_ extract %d %d) %s)", i*8+7, i*8, bits)
			if c.mode == ModeInt {
				e = "(bv2nat " + e + ")"
			}
			out = append(out, e)
		}
		return out
	}
	if !ok {
		c.fail("bytesOf: unsupported type %s", t)
	}
	n := w / 8
	var out []string
	if _, isbv := isBV(v.Sort); isbv {
		for i := 0; i < n; i++ {
			out = append(out, fmt.Sprintf("((_ extract %d %d) %s)", i*8+7, i*8, v.S))
		}
		return out
	}
	u := v.S
	if signed {
		u = c.define("u2c", SInt, fmt.Sprintf("(ite (< %s 0) (+ %s %s) %s)", v.S, v.S, pow2(w), v.S))
	}
	for i := 0; i < n; i++ {
		if i == 0 {
			out = append(out, fmt.Sprintf("(mod %s 256)", u))
		} else {
			out = append(out, fmt.Sprintf("(mod (div %s %s) 256)", u, pow2(8*i)))
		}
	}
	if c.mode == ModeInt && n >= 2 && n <= 8 {
		// recomposition lemma (a consequence of the byte definitions, stated to spare the solver the div/mod
		// reasoning): the little-endian sum of the bytes is the unsigned value
		var parts []string
		for i := 0; i < n; i++ {
			out[i] = c.define("wb", SInt, out[i])
			if i == 0 {
				parts = append(parts, out[i])
			} else {
				parts = append(parts, fmt.Sprintf("(* %s %s)", pow2(8*i), out[i]))
			}
		}
		c.assume("", fmt.Sprintf("(=> (and (<= 0 %s) (< %s %s)) (= (+ %s) %s))", u, u, pow2(w), strings.Join(parts, " "), u))
	}
	if c.mode == ModeBV { // Int-sorted value in bv mode (int/uint): bytes must be bv8
		for i := range out {
			out[i] = "(i2b8 " + out[i] + ")"
		}
	}
	return out
}

// fromBytes builds a value of type t from little-endian byte terms.
func (c *FnCtx) fromBytes(bs []string, t types.Type) Term {
	srt := c.sortOf(t)
	if b, isb := t.Underlying().(*types.Basic); isb && b.Kind() == types.Bool {
		if c.mode == ModeBV {
			return Term{S: fmt.Sprintf("(not (= %s #x00))", bs[0]), Sort: SBool, T: t}
		}
		return Term{S: fmt.Sprintf("(not (= %s 0))", bs[0]), Sort: SBool, T: t}
	}
	if b, isb := t.Underlying().(*types.Basic); isb && b.Kind() == types.Float32 {
		var parts []string
		for i := 3; i >= 0; i-- {
			e := bs[i]
			if c.mode == ModeInt {
				e = "((_ int2bv 8) " + e + ")"
			}
			parts = append(parts, e)
		}
		return Term{S: fmt.Sprintf("((_ to_fp 8 24) (concat %s))", strings.Join(parts, " ")), Sort: SFP32, T: t}
	}
	w, signed, _, ok := intWidth(t)
	if !ok {
		c.fail("fromBytes: unsupported type %s", t)
	}
	if _, isbv := isBV(srt); isbv {
		if len(bs) == 1 {
			return Term{S: bs[0], Sort: srt, T: t}
		}
		var parts []string
		for i := len(bs) - 1; i >= 0; i-- {
			parts = append(parts, bs[i])
		}
		return Term{S: "(concat " + strings.Join(parts, " ") + ")", Sort: srt, T: t}
	}
	var parts []string
	for i, b := range bs {
		if c.mode == ModeBV {
			b = "(b2i8 " + b + ")"
		}
		if i == 0 {
			parts = append(parts, b)
		} else {
			parts = append(parts, fmt.Sprintf("(* %s %s)", pow2(8*i), b))
		}
	}
	u := parts[0]
	if len(parts) > 1 {
		u = "(+ " + strings.Join(parts, " ") + ")"
	}
	if signed {
		un := c.define("dec", SInt, u)
		u = fmt.Sprintf("(ite (>= %s %s) (- %s %s) %s)", un, pow2(w-1), un, pow2(w), un)
	}
	return Term{S: u, Sort: SInt, T: t}
}

func sizeOfFixed(t types.Type) (int, bool) {
	switch u := t.Underlying().(type) {
	case *types.Basic:
		switch u.Kind() {
		case types.Bool, types.Int8, types.Uint8:
			return 1, true
		case types.Int16, types.Uint16:
			return 2, true
		case types.Int32, types.Uint32, types.Float32:
			return 4, true
		case types.Int64, types.Uint64, types.Float64:
			return 8, true
		}
	case *types.Struct:
		n := 0
		for i := 0; i < u.NumFields(); i++ {
			k, ok := sizeOfFixed(u.Field(i).Type())
			if !ok {
				return 0, false
			}
			n += k
		}
		return n, true
	}
	return 0, false
}

// wireBytes: the bytes binary.Write emits for value v of type t in the given order.
func (c *FnCtx) wireBytes(v Term, t types.Type, big bool) []string {
	if st, ok := t.Underlying().(*types.Struct); ok {
		var out []string
		for i := 0; i < st.NumFields(); i++ {
			ft := st.Field(i).Type()
			f := Term{S: fmt.Sprintf("(%s_%s %s)", v.Sort, sanitize(st.Field(i).Name()), v.S), Sort: c.sortOf(ft), T: ft}
			out = append(out, c.wireBytes(f, ft, big)...)
		}
		return out
	}
	le := c.bytesOf(v, t)
	if big {
		for i, j := 0, len(le)-1; i < j; i, j = i+1, j-1 {
			le[i], le[j] = le[j], le[i]
		}
	}
	return le
}

func (c *FnCtx) unwire(bs []string, t types.Type, big bool) Term {
	if st, ok := t.Underlying().(*types.Struct); ok {
		srt := c.sortOf(t)
		var fs []string
		pos := 0
		for i := 0; i < st.NumFields(); i++ {
			ft := st.Field(i).Type()
			n, _ := sizeOfFixed(ft)
			fs = append(fs, c.unwire(bs[pos:pos+n], ft, big).S)
			pos += n
		}
		return Term{S: fmt.Sprintf("(mk_%s %s)", srt, strings.Join(fs, " ")), Sort: srt, T: t}
	}
	le := append([]string{}, bs...)
	if big {
		for i, j := 0, len(le)-1; i < j; i, j = i+1, j-1 {
			le[i], le[j] = le[j], le[i]
		}
	}
	return c.fromBytes(le, t)
}

// byteOrderOf determines statically whether an order argument is big endian.
func byteOrderOf(v ssa.Value) (big bool, ok bool) {
	if mi, isMI := v.(*ssa.MakeInterface); isMI {
		v = mi.X
	}
	if u, isU := v.(*ssa.UnOp); isU {
		if g, isG := u.X.(*ssa.Global); isG {
			switch g.Name() {
			case "BigEndian":
				return true, true
			case "LittleEndian":
				return false, true
			}
		}
	}
	s := v.Type().String()
	if strings.Contains(s, "bigEndian") {
		return true, true
	}
	if strings.Contains(s, "littleEndian") {
		return false, true
	}
	return false, false
}

var bufferType types.Type

func (c *FnCtx) bufferT() types.Type {
	if bufferType == nil {
		for _, p := range c.eng.allPkgs {
			if p.Path() == "bytes" {
				bufferType = p.Scope().Lookup("Buffer").Type()
			}
		}
		if bufferType == nil {
			c.fail("package bytes not loaded")
		}
	}
	return bufferType
}

func (c *FnCtx) bufFields(st *State, ref string) (bufReg, offReg string) {
	bt := c.bufferT()
	su := bt.Underlying().(*types.Struct)
	for i := 0; i < su.NumFields(); i++ {
		switch su.Field(i).Name() {
		case "buf":
			bufReg, _ = c.fieldRegion(bt, i)
		case "off":
			offReg, _ = c.fieldRegion(bt, i)
		}
	}
	return
}

func (c *FnCtx) bufWrite(st *State, ref string, bs []string, src *Term) {
	bufReg, _ := c.bufFields(st, ref)
	byteT := types.Typ[types.Uint8]
	cur := Term{S: fmt.Sprintf("(select %s %s)", c.get(st, bufReg), ref), Sort: SSlice, T: types.NewSlice(byteT)}
	var ns Term
	if src != nil {
		ns = c.appendModel(st, cur, byteT, nil, src, false, cur.T)
	} else {
		var es []Term
		for _, b := range bs {
			es = append(es, Term{S: b, Sort: c.sortOf(byteT)})
		}
		ns = c.appendModel(st, cur, byteT, es, nil, false, cur.T)
	}
	c.set(st, bufReg, fmt.Sprintf("(store %s %s %s)", c.get(st, bufReg), ref, ns.S))
}

// readerRef: the *bytes.Buffer behind an io.Reader/io.Writer argument.
func (c *FnCtx) bufArg(fr *frame, v ssa.Value) (string, bool) {
	mi, ok := v.(*ssa.MakeInterface)
	if !ok {
		return "", false
	}
	if !strings.HasSuffix(mi.X.Type().String(), "*bytes.Buffer") {
		return "", false
	}
	return c.val(fr, mi.X).S, true
}

func (c *FnCtx) stdModel(fr *frame, st *State, site ssa.Instruction, name string, cc *ssa.CallCommon) (interface{}, bool) {
	guard := st.g
	errNil := Term{S: "(mk_Iface 0 0)", Sort: SIface}
	byteT := types.Typ[types.Uint8]
	switch name {
	case "(*bytes.Buffer).Bytes":
		ref := c.val(fr, cc.Args[0]).S
		bufReg, offReg := c.bufFields(st, ref)
		b := fmt.Sprintf("(select %s %s)", c.get(st, bufReg), ref)
		o := fmt.Sprintf("(select %s %s)", c.get(st, offReg), ref)
		return Term{S: c.define("bbytes", SSlice, mkSlice(slArr(b), add(slOff(b), o), sub(slLen(b), o), sub(slCap(b), o))), Sort: SSlice, T: types.NewSlice(byteT)}, true
	case "(*bytes.Buffer).Len":
		ref := c.val(fr, cc.Args[0]).S
		bufReg, offReg := c.bufFields(st, ref)
		b := fmt.Sprintf("(select %s %s)", c.get(st, bufReg), ref)
		o := fmt.Sprintf("(select %s %s)", c.get(st, offReg), ref)
		return Term{S: sub(slLen(b), o), Sort: SInt, T: types.Typ[types.Int]}, true
	case "(*bytes.Buffer).Write":
		ref := c.val(fr, cc.Args[0]).S
		src := c.val(fr, cc.Args[1])
		c.bufWrite(st, ref, nil, &src)
		return Tuple{Term{S: slLen(src.S), Sort: SInt, T: types.Typ[types.Int]}, errNil}, true
	case "bytes.NewBuffer":
		s := c.val(fr, cc.Args[0])
		r := c.newRef(st, guard)
		p := Term{S: r, Sort: SInt, T: types.NewPointer(c.bufferT())}
		c.storePtr(st, p, c.bufferT(), Term{S: c.zero(c.bufferT()), Sort: c.sortOf(c.bufferT()), T: c.bufferT()})
		bufReg, _ := c.bufFields(st, r)
		c.set(st, bufReg, fmt.Sprintf("(store %s %s %s)", c.get(st, bufReg), r, s.S))
		return p, true
	case "encoding/binary.Write":
		ref, ok := c.bufArg(fr, cc.Args[0])
		if !ok {
			c.fail("binary.Write to a non-*bytes.Buffer writer in %s", funcKey(fr.fn))
		}
		big, ok := byteOrderOf(cc.Args[1])
		if !ok {
			c.fail("binary.Write: unknown byte order")
		}
		mi, ok := cc.Args[2].(*ssa.MakeInterface)
		if !ok {
			c.fail("binary.Write: data is not a static value")
		}
		dt := mi.X.Type()
		v := c.val(fr, mi.X)
		if isByteSlice(dt) {
			c.bufWrite(st, ref, nil, &v)
			return errNil, true
		}
		if p, isP := dt.Underlying().(*types.Pointer); isP {
			dt = p.Elem()
			v = c.loadPtr(st, v, dt)
		}
		if _, ok := sizeOfFixed(dt); !ok {
			c.fail("binary.Write of %s unsupported", dt)
		}
		c.bufWrite(st, ref, c.wireBytes(v, dt, big), nil)
		return errNil, true
	case "encoding/binary.Read":
		ref, ok := c.bufArg(fr, cc.Args[0])
		if !ok {
			c.fail("binary.Read from a non-*bytes.Buffer reader in %s", funcKey(fr.fn))
		}
		big, ok := byteOrderOf(cc.Args[1])
		if !ok {
			c.fail("binary.Read: unknown byte order")
		}
		mi, ok := cc.Args[2].(*ssa.MakeInterface)
		if !ok {
			c.fail("binary.Read: data is not a static pointer")
		}
		pt, isP := mi.X.Type().Underlying().(*types.Pointer)
		if !isP {
			c.fail("binary.Read: data is not a pointer")
		}
		dt := pt.Elem()
		n, okf := sizeOfFixed(dt)
		if !okf {
			c.fail("binary.Read into %s unsupported", dt)
		}
		bufReg, offReg := c.bufFields(st, ref)
		b := c.define("rd_buf", SSlice, fmt.Sprintf("(select %s %s)", c.get(st, bufReg), ref))
		o := c.define("rd_off", SInt, fmt.Sprintf("(select %s %s)", c.get(st, offReg), ref))
		A := c.get(st, c.elemRegion(byteT))
		okc := c.define("rd_ok", SBool, fmt.Sprintf("(>= (- %s %s) %d)", slLen(b), o, n))
		var bs []string
		for i := 0; i < n; i++ {
			bs = append(bs, fmt.Sprintf("(select (select %s %s) (+ %s %s %d))", A, slArr(b), slOff(b), o, i))
		}
		nv := c.unwire(bs, dt, big)
		// target
		target := c.valIn(fr, mi.X)
		var oldv Term
		switch p := target.(type) {
		case *Loc:
			oldv = c.loadLoc(st, p)
		case Term:
			if p.Sort == "LOCAL" {
				oldv = Term{S: c.get(st, strings.TrimPrefix(p.S, "LOCAL:")), Sort: c.sortOf(dt), T: dt}
			} else {
				oldv = c.loadPtr(st, p, dt)
			}
		}
		val := Term{S: c.define("rd_val", nv.Sort, fmt.Sprintf("(ite %s %s %s)", okc, nv.S, oldv.S)), Sort: nv.Sort, T: dt}
		switch p := target.(type) {
		case *Loc:
			c.storeLoc(st, p, val)
		case Term:
			if p.Sort == "LOCAL" {
				c.set(st, strings.TrimPrefix(p.S, "LOCAL:"), val.S)
			} else {
				c.storePtr(st, p, dt, val)
			}
		}
		c.set(st, offReg, fmt.Sprintf("(store %s %s (ite %s (+ %s %d) %s))", c.get(st, offReg), ref, okc, o, n, slLen(b)))
		errv := Term{S: c.fresh("rderr", SIface), Sort: SIface}
		c.assume("", fmt.Sprintf("(= (= (if_tag %s) 0) %s)", errv.S, okc))
		return errv, true
	case "(encoding/binary.bigEndian).Uint16", "(encoding/binary.bigEndian).Uint32", "(encoding/binary.bigEndian).Uint64",
		"(encoding/binary.littleEndian).Uint16", "(encoding/binary.littleEndian).Uint32", "(encoding/binary.littleEndian).Uint64":
		big := strings.Contains(name, "bigEndian")
		var w int
		fmt.Sscanf(name[strings.LastIndex(name, "Uint")+4:], "%d", &w)
		n := w / 8
		s := c.val(fr, cc.Args[1])
		c.oblige("bounds", "bounds@"+shortPos(c.curPos)+":Uint", guard, fmt.Sprintf("(>= %s %d)", slLen(s.S), n), "ByteOrder.UintN needs N bytes")
		A := c.get(st, c.elemRegion(byteT))
		var bs []string
		for i := 0; i < n; i++ {
			bs = append(bs, fmt.Sprintf("(select (select %s %s) (+ %s %d))", A, slArr(s.S), slOff(s.S), i))
		}
		rt := cc.Signature().Results().At(0).Type()
		return c.unwire(bs, rt, big), true
	case "(encoding/binary.bigEndian).PutUint16", "(encoding/binary.bigEndian).PutUint32", "(encoding/binary.bigEndian).PutUint64",
		"(encoding/binary.littleEndian).PutUint16", "(encoding/binary.littleEndian).PutUint32", "(encoding/binary.littleEndian).PutUint64":
		big := strings.Contains(name, "bigEndian")
		s := c.val(fr, cc.Args[1])
		v := c.val(fr, cc.Args[2])
		bs := c.wireBytes(v, cc.Args[2].Type(), big)
		c.oblige("bounds", "bounds@"+shortPos(c.curPos)+":PutUint", guard, fmt.Sprintf("(>= %s %d)", slLen(s.S), len(bs)), "ByteOrder.PutUintN needs N bytes")
		reg := c.elemRegion(byteT)
		A := c.get(st, reg)
		B := fmt.Sprintf("(select %s %s)", A, slArr(s.S))
		for i, b := range bs {
			B = fmt.Sprintf("(store %s (+ %s %d) %s)", B, slOff(s.S), i, b)
		}
		c.set(st, reg, fmt.Sprintf("(store %s %s %s)", A, slArr(s.S), B))
		return nil, true
	case "math.Float32bits":
		f := c.val(fr, cc.Args[0])
		bits := c.fresh("f32bits", bvSort(32))
		c.assume("", fmt.Sprintf("(= ((_ to_fp 8 24) %s) %s)", bits, f.S))
		if c.mode == ModeBV {
			return Term{S: bits, Sort: bvSort(32), T: types.Typ[types.Uint32]}, true
		}
		return Term{S: fmt.Sprintf("(bv2nat %s)", bits), Sort: SInt, T: types.Typ[types.Uint32]}, true
	case "math.Float32frombits":
		b := c.val(fr, cc.Args[0])
		if c.mode == ModeBV {
			return Term{S: fmt.Sprintf("((_ to_fp 8 24) %s)", b.S), Sort: SFP32, T: types.Typ[types.Float32]}, true
		}
		return Term{S: fmt.Sprintf("((_ to_fp 8 24) ((_ int2bv 32) %s))", b.S), Sort: SFP32, T: types.Typ[types.Float32]}, true
	case "sync/atomic.AddInt32", "sync/atomic.LoadInt32", "sync/atomic.StoreInt32",
		"sync/atomic.AddUint32", "sync/atomic.LoadUint32", "sync/atomic.StoreUint32",
		"sync/atomic.AddInt64", "sync/atomic.LoadInt64", "sync/atomic.StoreInt64",
		"sync/atomic.AddUint64", "sync/atomic.LoadUint64", "sync/atomic.StoreUint64":
		target := c.valIn(fr, cc.Args[0])
		var cur Term
		t32 := derefT(cc.Args[0].Type())
		switch p := target.(type) {
		case *Loc:
			cur = c.loadLoc(st, p)
		case Term:
			cur = c.loadPtr(st, p, t32)
		}
		cur = c.named(cur, "at")
		c.loadFacts(st, cur)
		if strings.Contains(name, ".Load") {
			return cur, true
		}
		var nv Term
		if strings.Contains(name, ".Add") {
			d := c.val(fr, cc.Args[1])
			if cur.Sort == SInt {
				nv = Term{S: c.wrapInt(fmt.Sprintf("(+ %s %s)", cur.S, d.S), t32), Sort: SInt, T: t32}
			} else {
				nv = Term{S: fmt.Sprintf("(bvadd %s %s)", cur.S, d.S), Sort: cur.Sort, T: t32}
			}
		} else {
			nv = c.val(fr, cc.Args[1])
		}
		switch p := target.(type) {
		case *Loc:
			c.storeLoc(st, p, nv)
		case Term:
			c.storePtr(st, p, t32, nv)
		}
		if strings.Contains(name, ".Add") {
			return nv, true
		}
		return nil, true
	}
	switch {
	case strings.HasPrefix(name, "fmt.Print"), strings.HasPrefix(name, "fmt.Fprint"), strings.HasPrefix(name, "(*os.File)."), name == "os.Exit":
		return c.noopCall(st, cc.Signature()), true
	case strings.HasPrefix(name, "fmt.Sprint"), strings.HasPrefix(name, "fmt.Errorf"), strings.HasPrefix(name, "strconv."):
		return c.noopCall(st, cc.Signature()), true
	case strings.HasPrefix(name, "(*sync.Mutex)."), strings.HasPrefix(name, "(*sync.RWMutex)."):
		if h := c.prof.lockHook; h != nil {
			h(c, fr, st, name, cc)
		}
		c.mutexModel(fr, st, name, cc)
		return c.noopCall(st, cc.Signature()), true
	case strings.HasPrefix(name, "(*sync.Pool)."):
		// sync.Pool: Put keeps a reference to its argument and changes nothing the caller can observe; Get returns
		// an arbitrary value of the pool's element type
		return c.noopCall(st, cc.Signature()), true
	case name == "errors.New":
		// a fresh, non-nil error value
		r := c.noopCall(st, cc.Signature())
		if t, ok := r.(Term); ok && t.Sort == SIface {
			c.assume("", fmt.Sprintf("(not (= %s (mk_Iface 0 0)))", t.S))
		}
		return r, true
	case name == "strings.Contains" || name == "strings.HasSuffix" || name == "strings.HasPrefix":
		// pure functions of their two string arguments (uninterpreted)
		a, aok := c.valIn(fr, cc.Args[0]).(Term)
		b, bok := c.valIn(fr, cc.Args[1]).(Term)
		if aok && bok {
			fn := map[string]string{"strings.Contains": "str_contains", "strings.HasSuffix": "str_hassuffix", "strings.HasPrefix": "str_hasprefix"}[name]
			return Term{S: fmt.Sprintf("(%s %s %s)", fn, a.S, b.S), Sort: SBool, T: types.Typ[types.Bool]}, true
		}
		return c.noopCall(st, cc.Signature()), true
	case name == "strings.ToLower":
		if a, ok := c.valIn(fr, cc.Args[0]).(Term); ok {
			return Term{S: fmt.Sprintf("(str_lower %s)", a.S), Sort: SInt, T: types.Typ[types.String]}, true
		}
		return c.noopCall(st, cc.Signature()), true
	case name == "strings.Split":
		// a fresh slice of str_nsplit(s, sep) >= 1 strings; element k is str_part(s, sep, k) (uninterpreted)
		a, aok := c.valIn(fr, cc.Args[0]).(Term)
		b, bok := c.valIn(fr, cc.Args[1]).(Term)
		if aok && bok {
			et := types.Typ[types.String]
			reg := c.elemRegion(et)
			r := c.newRef(st, st.g)
			arr := c.fresh("ssplit", fmt.Sprintf("(Array Int %s)", c.sortOf(et)))
			c.assume("", fmt.Sprintf("(forall ((i Int)) (! (= (select %s i) (str_part %s %s i)) :pattern ((select %s i))))", arr, a.S, b.S, arr))
			c.set(st, reg, fmt.Sprintf("(store %s %s %s)", c.get(st, reg), r, arr))
			ln := fmt.Sprintf("(str_nsplit %s %s)", a.S, b.S)
			c.assume("", fmt.Sprintf("(>= %s 1)", ln))
			return Term{S: mkSlice(r, "0", ln, ln), Sort: SSlice, T: types.NewSlice(et)}, true
		}
		return c.noopCall(st, cc.Signature()), true
	case strings.HasPrefix(name, "time."), strings.HasPrefix(name, "runtime."), strings.HasPrefix(name, "math."), strings.HasPrefix(name, "strings."), strings.HasPrefix(name, "os."), strings.HasPrefix(name, "errors."):
		return c.noopCall(st, cc.Signature()), true
	}
	return nil, false
}

func stdWriteSet(c *FnCtx, name string, cc *ssa.CallCommon) ([]string, bool) {
	byteT := types.Typ[types.Uint8]
	switch {
	case strings.HasPrefix(name, "(*bytes.Buffer)."), name == "bytes.NewBuffer", name == "encoding/binary.Write":
		br, or := c.bufFields(nil, "")
		return []string{br, or, c.elemRegion(byteT)}, true
	case name == "encoding/binary.Read":
		br, or := c.bufFields(nil, "")
		out := []string{br, or}
		if mi, ok := cc.Args[2].(*ssa.MakeInterface); ok {
			out = append(out, c.storeRegions(mi.X)...)
		}
		return out, true
	case strings.Contains(name, "Endian).Put"):
		return []string{c.elemRegion(byteT)}, true
	case strings.Contains(name, "Endian).Uint"), strings.HasPrefix(name, "math."), strings.HasPrefix(name, "fmt."), strings.HasPrefix(name, "(*sync."), strings.HasPrefix(name, "strconv."), strings.HasPrefix(name, "time."), strings.HasPrefix(name, "runtime."), strings.HasPrefix(name, "(*os.File)."), strings.HasPrefix(name, "strings."), strings.HasPrefix(name, "os."), strings.HasPrefix(name, "errors."):
		return nil, true
	case strings.HasPrefix(name, "sync/atomic."):
		if strings.Contains(name, ".Load") {
			return nil, true
		}
		return c.storeRegions(cc.Args[0]), true
	}
	return nil, false
}


// mutexModel: when the profile's prelude declares the ghosts mu (Array Int Bool: mutex held exclusively) and
// optionally rmu (Array Int Int: number of read holds), sync.Mutex / sync.RWMutex calls update them; unlocking
// a mutex that is not held is an obligation.
func (c *FnCtx) mutexModel(fr *frame, st *State, name string, cc *ssa.CallCommon) {
	reg, ok := c.ghostRegion("mu")
	if !ok || len(cc.Args) == 0 {
		return
	}
	m := c.val(fr, cc.Args[0]).S
	method := name[strings.LastIndex(name, ".")+1:]
	cur := c.get(st, reg)
	switch method {
	case "Lock":
		// a blocking acquire returns only when nobody, the caller included, holds the mutex
		c.assume(st.g, fmt.Sprintf("(not (select %s %s))", cur, m))
		c.set(st, reg, fmt.Sprintf("(store %s %s true)", cur, m))
	case "Unlock":
		c.oblige("lock", "unlock-held@"+shortPos(c.curPos), st.g, fmt.Sprintf("(select %s %s)", cur, m), "Unlock of a mutex this function does not hold")
		c.set(st, reg, fmt.Sprintf("(store %s %s false)", cur, m))
	case "RLock", "RUnlock":
		rreg, ok := c.ghostRegion("rmu")
		if !ok {
			return
		}
		rc := c.get(st, rreg)
		if method == "RLock" {
			// hold counts are never negative (ghost well-formedness)
			c.assume(st.g, fmt.Sprintf("(>= (select %s %s) 0)", rc, m))
			c.set(st, rreg, fmt.Sprintf("(store %s %s (+ (select %s %s) 1))", rc, m, rc, m))
		} else {
			c.oblige("lock", "runlock-held@"+shortPos(c.curPos), st.g, fmt.Sprintf("(> (select %s %s) 0)", rc, m), "RUnlock of a mutex this function does not read-hold")
			c.set(st, rreg, fmt.Sprintf("(store %s %s (- (select %s %s) 1))", rc, m, rc, m))
		}
	}
}
