package main

// Coverage closure for ghost profiles: a call that is resolved by the default
// ("ghost-neutral, havoc the untracked heap") rule must not be able to reach a primitive of
// the profile; otherwise the callee needs a contract of its own.

import (
	"fmt"
	"sort"
	"strings"

	"golang.org/x/tools/go/ssa"
	"golang.org/x/tools/go/ssa/ssautil"
)

func coverageClosure(eng *Engine, prof *Profile, cfg *PropConfig, keys []string) []*FnResult {
	prim := map[string]bool{}
	for _, p := range cfg.Primitives {
		prim[expandKey(p)] = true
	}
	// method name -> functions (cheap CHA for interface calls), lib only
	byName := map[string][]*ssa.Function{}
	for fn := range ssautil.AllFunctions(eng.prog) {
		if fn.Pkg != nil && strings.HasPrefix(fn.Pkg.Pkg.Path(), libPrefix) && fn.Signature.Recv() != nil {
			byName[fn.Name()] = append(byName[fn.Name()], fn)
		}
	}
	memo := map[*ssa.Function]string{} // "" = clean, otherwise witness path
	visiting := map[*ssa.Function]bool{}
	var reach func(fn *ssa.Function, depth int) string
	reach = func(fn *ssa.Function, depth int) string {
		if fn == nil {
			return ""
		}
		k := funcKey(fn)
		if prim[k] {
			return k
		}
		if w, ok := memo[fn]; ok {
			return w
		}
		if visiting[fn] || depth > 40 {
			return ""
		}
		// a callee with its own contract in this profile is accounted for there
		if con := eng.contractFor(k, prof); con != nil && depth > 0 {
			return ""
		}
		visiting[fn] = true
		defer func() { visiting[fn] = false }()
		res := ""
		for _, b := range fn.Blocks {
			for _, ins := range b.Instrs {
				ci, ok := ins.(ssa.CallInstruction)
				if !ok {
					continue
				}
				cc := ci.Common()
				var cands []*ssa.Function
				if cc.IsInvoke() {
					ik := ""
					if n, ok := cc.Value.Type().(interface{ Obj() interface{ Name() string } }); ok {
						_ = n
					}
					_ = ik
					cands = byName[cc.Method.Name()]
				} else if sc := cc.StaticCallee(); sc != nil {
					cands = []*ssa.Function{sc}
				} else if mc, ok := cc.Value.(*ssa.MakeClosure); ok {
					cands = []*ssa.Function{mc.Fn.(*ssa.Function)}
				}
				for _, c2 := range cands {
					if c2.Pkg == nil || !strings.HasPrefix(c2.Pkg.Pkg.Path(), libPrefix) {
						continue
					}
					if w := reach(c2, depth+1); w != "" {
						res = funcKey(c2) + " -> " + w
						if prim[funcKey(c2)] {
							res = funcKey(c2)
						}
						memo[fn] = res
						return res
					}
				}
			}
		}
		memo[fn] = res
		return res
	}
	var out []*FnResult
	sort.Strings(keys)
	for _, k := range keys {
		con := eng.contractFor(k, prof)
		if con == nil || con.Trusted {
			continue
		}
		fn := eng.findFunc(k)
		if fn == nil {
			continue
		}
		for _, b := range fn.Blocks {
			for _, ins := range b.Instrs {
				ci, ok := ins.(ssa.CallInstruction)
				if !ok {
					continue
				}
				cc := ci.Common()
				if cc.IsInvoke() {
					// interface call: needs an interface contract, or no implementation may reach a primitive
					ipk, iname := "", ""
					if n, ok := cc.Value.Type().(interface {
						Obj() *typesTypeName
					}); ok {
						_ = n
					}
					_ = ipk
					_ = iname
					if hasIfaceContract(eng, prof, cc) {
						continue
					}
					for _, c2 := range byName[cc.Method.Name()] {
						if w := reachFrom(reach, prim, c2); w != "" {
							out = append(out, &FnResult{Key: k, Err: fmt.Sprintf("coverage-gap: interface call %s.%s in %s can reach primitive via %s; it needs an interface contract in profile %s", cc.Value.Type(), cc.Method.Name(), k, w, prof.Name)})
							break
						}
					}
					continue
				}
				sc := cc.StaticCallee()
				if sc == nil {
					continue
				}
				ck := funcKey(sc)
				if eng.contractFor(ck, prof) != nil || prof.inlineOK(ck) || prim[ck] || sc.Parent() == fn {
					continue // (closures created and called in the same function are inlined)
				}
				if sc.Pkg == nil || !strings.HasPrefix(sc.Pkg.Pkg.Path(), libPrefix) {
					continue
				}
				if w := reachFrom(reach, prim, sc); w != "" {
					out = append(out, &FnResult{Key: k, Err: fmt.Sprintf("coverage-gap: call to %s (no contract in profile %s) can reach primitive via %s", ck, prof.Name, w)})
				}
			}
		}
	}
	return out
}

type typesTypeName struct{}

func reachFrom(reach func(*ssa.Function, int) string, prim map[string]bool, fn *ssa.Function) string {
	if prim[funcKey(fn)] {
		return funcKey(fn)
	}
	return reach(fn, 1)
}

func hasIfaceContract(eng *Engine, prof *Profile, cc *ssa.CallCommon) bool {
	t := cc.Value.Type()
	s := t.String()
	i := strings.LastIndex(s, ".")
	if i < 0 {
		return false
	}
	key := s[:i] + "::" + s[i+1:] + "." + cc.Method.Name()
	return eng.contractFor(key, prof) != nil
}

// uncoveredReachers: library functions that can reach a primitive but carry no contract in the
// profile (their neutrality follows only by composition of the contracts of what they call).
func uncoveredReachers(eng *Engine, prof *Profile, cfg *PropConfig) []string {
	prim := map[string]bool{}
	for _, p := range cfg.Primitives {
		prim[expandKey(p)] = true
	}
	direct := map[string]bool{}
	for fn := range ssautil.AllFunctions(eng.prog) {
		if fn.Pkg == nil || !strings.HasPrefix(fn.Pkg.Pkg.Path(), libPrefix) {
			continue
		}
		k := funcKey(fn)
		if fn.Parent() != nil {
			k = funcKey(fn.Parent())
		}
		if eng.contractFor(k, prof) != nil || prim[k] {
			continue
		}
		for _, b := range fn.Blocks {
			for _, ins := range b.Instrs {
				if ci, ok := ins.(ssa.CallInstruction); ok {
					if sc := ci.Common().StaticCallee(); sc != nil && prim[funcKey(sc)] {
						direct[k] = true
					}
				}
			}
		}
	}
	var out []string
	for k := range direct {
		out = append(out, strings.TrimPrefix(k, libPrefix))
	}
	sort.Strings(out)
	return out
}
