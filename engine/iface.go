package main

// Interfaces, maps, ranges.

import (
	"fmt"
	"go/types"

	"golang.org/x/tools/go/ssa"
)

func (c *FnCtx) payloadDirect(t types.Type, srt string) bool {
	if srt != SInt {
		return false
	}
	return true
}

func (c *FnCtx) boxFn(srt string) string {
	fn := "box_" + sanitize(srt)
	c.eng.declareFun(fn, fmt.Sprintf("(Int) %s", srt))
	return fn
}

func (c *FnCtx) makeInterface(v Term, from types.Type, to types.Type) Term {
	if _, ok := from.Underlying().(*types.Interface); ok {
		return v
	}
	tid := c.eng.typeID(from)
	if c.payloadDirect(from, v.Sort) {
		return Term{S: fmt.Sprintf("(mk_Iface %d %s)", tid, v.S), Sort: SIface, T: to}
	}
	id := c.fresh("box", SInt)
	c.assume("", fmt.Sprintf("(= (%s %s) %s)", c.boxFn(v.Sort), id, v.S))
	return Term{S: fmt.Sprintf("(mk_Iface %d %s)", tid, id), Sort: SIface, T: to}
}

func (c *FnCtx) unbox(iv Term, t types.Type) Term {
	srt := c.sortOf(t)
	if c.payloadDirect(t, srt) {
		return Term{S: fmt.Sprintf("(if_val %s)", iv.S), Sort: srt, T: t}
	}
	return Term{S: fmt.Sprintf("(%s (if_val %s))", c.boxFn(srt), iv.S), Sort: srt, T: t}
}

func (c *FnCtx) typeAssert(fr *frame, st *State, guard string, x *ssa.TypeAssert) {
	iv := c.val(fr, x.X)
	if _, isIface := x.AssertedType.Underlying().(*types.Interface); isIface {
		ok := fmt.Sprintf("(not (= (if_tag %s) 0))", iv.S)
		if x.CommaOk {
			c.setVal(fr, x, Tuple{iv, Term{S: ok, Sort: SBool}})
		} else {
			c.setVal(fr, x, iv)
		}
		return
	}
	tid := c.eng.typeID(x.AssertedType)
	ok := fmt.Sprintf("(= (if_tag %s) %d)", iv.S, tid)
	v := c.unbox(iv, x.AssertedType)
	c.loadFacts(st, v)
	if x.CommaOk {
		z := c.zero(x.AssertedType)
		c.setVal(fr, x, Tuple{Term{S: fmt.Sprintf("(ite %s %s %s)", ok, v.S, z), Sort: v.Sort, T: x.AssertedType}, Term{S: ok, Sort: SBool}})
		return
	}
	mayPanic := c.prof.IgnorePanics || fr.mayPanic || (fr.con != nil && fr.con.MayPanic)
	if !mayPanic {
		c.oblige("typeassert", "typeassert@"+x.Name(), guard, ok, "type assertion "+x.String())
	} else {
		// the failing branch panics: continue under the assumption that it holds
		c.assume(guard, ok)
	}
	c.setVal(fr, x, v)
}

func (c *FnCtx) lookup(fr *frame, st *State, guard string, x *ssa.Lookup) {
	switch u := x.X.Type().Underlying().(type) {
	case *types.Map:
		m := c.val(fr, x.X)
		k := c.val(fr, x.Index)
		d, v := c.mapRegions(u)
		has := fmt.Sprintf("(select (select %s %s) %s)", c.get(st, d), m.S, k.S)
		raw := fmt.Sprintf("(select (select %s %s) %s)", c.get(st, v), m.S, k.S)
		val := Term{S: fmt.Sprintf("(ite %s %s %s)", has, raw, c.zero(u.Elem())), Sort: c.sortOf(u.Elem()), T: u.Elem()}
		val = c.named(val, "mv")
		c.loadFacts(st, val)
		if x.CommaOk {
			c.setVal(fr, x, Tuple{val, Term{S: has, Sort: SBool}})
		} else {
			c.setVal(fr, x, val)
		}
	case *types.Basic:
		s := c.val(fr, x.X)
		i := c.idxTerm(c.val(fr, x.Index))
		c.oblige("bounds", "bounds@"+x.Name(), guard, fmt.Sprintf("(and (<= 0 %s) (< %s (strlen %s)))", i, i, s.S), "string index")
		r := fmt.Sprintf("(strat %s %s)", s.S, i)
		c.setVal(fr, x, Term{S: r, Sort: c.sortOf(x.Type()), T: x.Type()})
	default:
		c.fail("Lookup on %s", x.X.Type())
	}
}

func (c *FnCtx) rangeNext(fr *frame, st *State, guard string, instr ssa.Instruction) {
	switch x := instr.(type) {
	case *ssa.Range:
		if _, ok := x.X.Type().Underlying().(*types.Map); !ok {
			c.fail("range over string is outside the subset (%s in %s)", instr, funcKey(fr.fn))
		}
		c.setVal(fr, x, c.val(fr, x.X)) // the iterator is represented by the map itself
	case *ssa.Next:
		if x.IsString {
			c.fail("range over string is outside the subset (%s in %s)", instr, funcKey(fr.fn))
		}
		rg := x.Iter.(*ssa.Range)
		mt := rg.X.Type().Underlying().(*types.Map)
		m := c.val(fr, x.Iter)
		d, v := c.mapRegions(mt)
		// some key of the map, or exhaustion: order and completeness of the iteration are not modelled
		// (sound for safety and ghost-balance obligations; no claim that every key is visited)
		ok := c.fresh("rng_ok", SBool)
		ks := c.sortOf(mt.Key())
		k := Term{S: c.fresh("rng_key", ks), Sort: ks, T: mt.Key()}
		c.typeFacts(st, k, mt.Key())
		c.assume("", fmt.Sprintf("(=> %s (select (select %s %s) %s))", ok, c.get(st, d), m.S, k.S))
		val := Term{S: fmt.Sprintf("(select (select %s %s) %s)", c.get(st, v), m.S, k.S), Sort: c.sortOf(mt.Elem()), T: mt.Elem()}
		val = c.named(val, "rng_val")
		c.loadFacts(st, val)
		c.setVal(fr, x, Tuple{Term{S: ok, Sort: SBool}, k, val})
	}
}
