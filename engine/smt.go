package main

// Query assembly and the solver portfolio.

import (
	"regexp"
	"bytes"
	"context"
	"fmt"
	"os"
	"os/exec"
	"path/filepath"
	"strings"
	"sync"
	"time"
)

type Solver struct {
	Name string
	Args func(file string, timeoutS int, seed int) []string
}

var solvers = []Solver{
	{"z3-new", func(f string, t, seed int) []string {
		return []string{"z3-new", fmt.Sprintf("-T:%d", t), fmt.Sprintf("smt.random_seed=%d", seed), f}
	}},
	{"z3", func(f string, t, seed int) []string {
		return []string{"z3", fmt.Sprintf("-T:%d", t), fmt.Sprintf("smt.random_seed=%d", seed), f}
	}},
	{"cvc5", func(f string, t, seed int) []string {
		return []string{"cvc5", "--lang=smt2", fmt.Sprintf("--tlimit=%d", t*1000), fmt.Sprintf("--seed=%d", seed), f}
	}},
}

func (e *Engine) header() string {
	var sb strings.Builder
	sb.WriteString(commonPrelude)
	for _, d := range e.dtDecls {
		sb.WriteString(d + "\n")
	}
	for _, d := range e.funDecls {
		sb.WriteString(d + "\n")
	}
	for _, s := range e.strOrder {
		id := e.strIDs[s]
		sb.WriteString(fmt.Sprintf("(assert (= (strlen %d) %d))\n", id, len(s)))
		if len(s) <= 16 {
			for i := 0; i < len(s); i++ {
				if e.mode == ModeBV {
					sb.WriteString(fmt.Sprintf("(assert (= (strat %d %d) #x%02x))\n", id, i, s[i]))
				} else {
					sb.WriteString(fmt.Sprintf("(assert (= (strat %d %d) %d))\n", id, i, s[i]))
				}
			}
		}
	}
	sb.WriteString(e.prelude)
	return sb.String()
}

func (o *Obl) Query(header string, model bool) string {
	var sb strings.Builder
	if model {
		sb.WriteString("(set-option :produce-models true)\n")
	}
	if o.raw != "" {
		sb.WriteString(o.raw + "\n(check-sat)\n")
		if model {
			sb.WriteString("(get-model)\n")
		}
		return sb.String()
	}
	sb.WriteString(header)
	c := o.ctx
	for _, d := range c.decls[:o.NDecls] {
		sb.WriteString(d + "\n")
	}
	for _, f := range c.facts[:o.NFacts] {
		sb.WriteString("(assert " + f + ")\n")
	}
	if o.Guard != "" && o.Guard != "true" {
		sb.WriteString("(assert " + o.Guard + ")\n")
	}
	sb.WriteString("(assert (not " + o.Goal + "))\n(check-sat)\n")
	if model {
		sb.WriteString("(get-model)\n")
		for _, it := range c.inputTerms {
			sb.WriteString("(echo \"INPUT " + it.Label + "\")\n(get-value (" + it.S + "))\n")
		}
	}
	return sb.String()
}

type SolveOpts struct {
	TimeoutS int
	Seed     int
	Dir      string
	All      bool // run every solver (agreement check)
	Only     string
}

func runSolver(ctx context.Context, s Solver, file string, opts SolveOpts) (string, string, float64) {
	args := s.Args(file, opts.TimeoutS, opts.Seed)
	start := time.Now()
	cmd := exec.CommandContext(ctx, args[0], args[1:]...)
	var out bytes.Buffer
	cmd.Stdout = &out
	cmd.Stderr = &out
	cmd.Run()
	el := time.Since(start).Seconds()
	text := out.String()
	first := strings.TrimSpace(strings.SplitN(text, "\n", 2)[0])
	switch first {
	case "sat", "unsat", "unknown":
	default:
		if strings.Contains(text, "interrupted by timeout") || strings.Contains(text, "interrupted by SIG") || ctx.Err() != nil {
			first = "timeout"
		} else if strings.Contains(text, "error") || strings.Contains(text, "Error") {
			first = "error"
		} else if first == "timeout" || first == "" {
			first = "timeout"
		} else {
			first = "error"
		}
	}
	return first, text, el
}

// Solve races the solvers on one obligation.
func (o *Obl) Solve(header string, opts SolveOpts) {
	name := sanitize(o.Func + "__" + o.Name)
	if len(name) > 150 {
		name = name[len(name)-150:]
	}
	file := filepath.Join(opts.Dir, name+".smt2")
	if o.Expect == "sat" {
		// vacuity cover: a model search; drop the (trusted, fixed) quantified prelude axioms
		header = lightHeader(header)
		if opts.TimeoutS > 5 {
			opts.TimeoutS = 5
		}
	}
	os.WriteFile(file, []byte(o.Query(header, false)), 0644)
	// Proof search with e-matching is bimodal (instant or divergent) and the mode depends on the
	// random seed, so the portfolio restarts with fresh seeds rather than waiting:
	//   stage 1: z3-new, seed s, 2 s        stage 2: z3-new s+1, s+2, z3, cvc5 (<= 10 s)
	//   stage 3: z3-new s+3, s+4, z3 s+1, cvc5 s+1 with the full timeout
	type job struct {
		sv   Solver
		seed int
	}
	type ans struct {
		solver, res, text string
		t                 float64
	}
	runStage := func(jobs []job, timeoutS int) ans {
		ctx, cancel := context.WithCancel(context.Background())
		defer cancel()
		ch := make(chan ans, len(jobs))
		for _, j := range jobs {
			go func(j job) {
				oo := opts
				oo.TimeoutS = timeoutS
				oo.Seed = j.seed
				r, text, t := runSolver(ctx, j.sv, file, oo)
				ch <- ans{j.sv.Name, r, text, t}
			}(j)
		}
		best := ans{res: "timeout"}
		for range jobs {
			a := <-ch
			if a.res == "sat" || a.res == "unsat" {
				if best.res != "sat" && best.res != "unsat" {
					best = a
					if !opts.All {
						return best
					}
				} else if best.res != a.res {
					best = ans{solver: best.solver + "+" + a.solver, res: "disagree", text: best.text + a.text}
				}
			} else if best.res == "timeout" && (a.res != "timeout" || best.solver == "") {
				if best.res == "timeout" && a.res != "timeout" {
					best = a
				} else if best.solver == "" {
					best = a
				}
			}
		}
		return best
	}
	pick := func(name string) Solver {
		for _, sv := range solvers {
			if sv.Name == name {
				return sv
			}
		}
		return solvers[0]
	}
	var best ans
	s0 := opts.Seed
	if opts.Only != "" {
		best = runStage([]job{{pick(opts.Only), s0}}, opts.TimeoutS)
	} else if opts.All {
		best = runStage([]job{{pick("z3-new"), s0}, {pick("z3"), s0}, {pick("cvc5"), s0}, {pick("z3-new"), s0 + 1}}, opts.TimeoutS)
	} else {
		best = runStage([]job{{pick("z3-new"), s0}}, 2)
		definite := func(a ans) bool { return a.res == "unsat" || a.res == "sat" }
		if !definite(best) {
			t2 := opts.TimeoutS
			if t2 > 10 {
				t2 = 10
			}
			b2 := runStage([]job{{pick("z3-new"), s0 + 1}, {pick("z3-new"), s0 + 2}, {pick("z3"), s0}, {pick("cvc5"), s0}}, t2)
			if definite(b2) || best.res == "timeout" {
				best = b2
			}
		}
		if !definite(best) && opts.TimeoutS > 10 {
			b3 := runStage([]job{{pick("z3-new"), s0 + 3}, {pick("z3-new"), s0 + 4}, {pick("z3"), s0 + 1}, {pick("cvc5"), s0 + 1}}, opts.TimeoutS)
			if definite(b3) || best.res == "timeout" {
				best = b3
			}
		}
	}
	o.Result, o.Solver, o.Time = best.res, best.solver, best.t
	if best.res == "error" || best.res == "unknown" {
		o.Model = best.text
		if len(o.Model) > 2000 {
			o.Model = o.Model[:2000]
		}
	}
	if best.res == "sat" && o.Expect == "unsat" {
		// obtain a model from the winning solver
		mfile := filepath.Join(opts.Dir, name+".model.smt2")
		os.WriteFile(mfile, []byte(o.Query(header, true)), 0644)
		for _, s := range solvers {
			if s.Name == best.solver {
				c2, cancel2 := context.WithTimeout(context.Background(), time.Duration(opts.TimeoutS+5)*time.Second)
				_, text, _ := runSolver(c2, s, mfile, opts)
				cancel2()
				o.Model = text
			}
		}
	}
}

// candidateModel: a failed proof usually ends in "unknown" (quantified prelude axioms). For replay, search a
// model of the same query without the quantified axioms: the result is only a candidate input - it counts for
// nothing unless the replay on the real code reproduces the violation.
func (o *Obl) candidateModel(header string, opts SolveOpts) {
	if o.Expect != "unsat" || o.ctx == nil || len(o.ctx.inputTerms) == 0 || (o.Result != "unknown" && o.Result != "timeout") {
		return
	}
	name := sanitize(o.Func + "__" + o.Name)
	if len(name) > 150 {
		name = name[len(name)-150:]
	}
	mfile := filepath.Join(opts.Dir, name+".cand.smt2")
	os.WriteFile(mfile, []byte(pruneUnused(o.Query(lightHeader(header), true))), 0644)
	// the model search is seed sensitive (z3 answers sat for one seed and unknown for the next on the same query):
	// a few seeds, first sat wins
	for _, seed := range []int{0, 1, 2} {
		for _, s := range solvers {
			if s.Name != "z3-new" && seed != 0 {
				continue // the other two solvers get one attempt each
			}
			oo := opts
			oo.TimeoutS = 5
			oo.Seed = seed
			c2, cancel2 := context.WithTimeout(context.Background(), 10*time.Second)
			r, text, _ := runSolver(c2, s, mfile, oo)
			cancel2()
			if os.Getenv("GOVC_DEBUG") != "" {
				fmt.Fprintln(os.Stderr, "candidate model search:", o.Name, "seed", seed, r, len(text))
			}
			if r == "sat" {
				o.Model = text
				o.Candidate = true
				return
			}
		}
	}
}

func SolveAll(obls []*Obl, header string, opts SolveOpts, workers int) {
	var wg sync.WaitGroup
	ch := make(chan *Obl)
	for i := 0; i < workers; i++ {
		wg.Add(1)
		go func() {
			defer wg.Done()
			for o := range ch {
				o.Solve(header, opts)
				o.candidateModel(header, opts)
				if o.Pre != nil && o.Result == "unsat" {
					// the path is infeasible after the call: an alarm only if it was feasible before it
					o.Pre.Solve(header, opts)
					if o.Pre.Result != "sat" {
						o.Result = "unknown"
						o.Note = "call site not shown reachable (" + o.Pre.Result + "); post-call cover inconclusive"
					} else {
						o.Note = "the path is feasible before the call and infeasible after it: the callee's assumed postcondition (or its model) is contradictory here"
					}
				}
			}
		}()
	}
	for _, o := range obls {
		ch <- o
	}
	close(ch)
	wg.Wait()
}

func lightHeader(h string) string {
	var out []string
	for _, l := range strings.Split(h, "\n") {
		if strings.HasPrefix(l, "(assert (forall") && !strings.Contains(l, "(idx o i)") {
			continue
		}
		out = append(out, l)
	}
	return strings.Join(out, "\n")
}

var declNameRe = regexp.MustCompile(`^\((declare-fun|declare-datatype|declare-const|define-fun|define-sort) ([^ ()]+)`)
var strFactRe = regexp.MustCompile(`^\(assert \(= \((strlen|strat) [0-9]+`)

// pruneUnused drops from a model-search query the single-line declarations whose symbol is used nowhere else and
// the ground facts about string constants the query never mentions. Only used for candidate models (a candidate
// counts for nothing unless the replay reproduces it), so dropping irrelevant context is harmless; it matters
// because z3's model search on the same obligation succeeds or times out depending on unrelated declarations.
func pruneUnused(q string) string {
	lines := strings.Split(q, "\n")
	for pass := 0; pass < 4; pass++ {
		text := strings.Join(lines, "\n")
		var out []string
		changed := false
		for _, l := range lines {
			if m := declNameRe.FindStringSubmatch(l); m != nil && strings.Count(l, "\n") == 0 && balanced(l) {
				name := m[2]
				if strings.Count(text, name) <= strings.Count(l, name) {
					changed = true
					continue
				}
			}
			out = append(out, l)
		}
		lines = out
		if !changed {
			break
		}
	}
	// string constant facts: keep only if a non-fact line talks about strings at all
	uses := false
	for _, l := range lines {
		if !strFactRe.MatchString(l) && !strings.HasPrefix(l, "(declare-fun str") && (strings.Contains(l, "(strat ") || strings.Contains(l, "(strlen ")) && !strings.HasPrefix(l, "(assert (forall") && !strings.HasPrefix(l, "(assert (= (strlen 0) 0))") {
			uses = true
		}
	}
	if !uses {
		var out []string
		for _, l := range lines {
			if strFactRe.MatchString(l) {
				continue
			}
			out = append(out, l)
		}
		lines = out
	}
	return strings.Join(lines, "\n")
}

func balanced(l string) bool { return strings.Count(l, "(") == strings.Count(l, ")") }
