package main

// `govc check <ID>`: run a property, triage failures, write evidence, print verdict lines.

import (
	"bufio"
	"encoding/json"
	"flag"
	"fmt"
	"os"
	"path/filepath"
	"regexp"
	"sort"
	"strconv"
	"strings"
	"time"
)

type KnownFinding struct {
	Property string `json:"property"`
	Family   string `json:"obligation"`
	Status   string `json:"status"` // "open" or "fixed"
	What     string `json:"what"`
	Input    string `json:"input,omitempty"`
	Commit   string `json:"commit,omitempty"`
}

var regRe = regexp.MustCompile(`@t[0-9]+`)

// Family: a name for an obligation that survives line moves and SSA renumbering.
func (o *Obl) Family() string {
	name := o.Name
	switch o.Kind {
	case "requires":
		// requires@Callee#clause@file:line -> requires@Callee#clause
		if i := strings.LastIndex(name, "@"); i > 0 && strings.Contains(name[i:], ":") {
			name = name[:i]
		}
	case "ensures", "frame":
		if i := strings.LastIndex(name, "@r"); i > 0 {
			name = name[:i]
		}
	case "at-call", "guarded", "lock", "cover":
		// ...@file:line -> position stripped
		if i := strings.LastIndex(name, "@"); i > 0 && strings.Contains(name[i:], ":") {
			name = name[:i]
		}
	case "inv-preserve", "decreases", "body-ensures":
		if i := strings.LastIndex(name, "@b"); i > 0 {
			name = name[:i]
		}
	case "bounds", "nil", "nowrap", "divzero", "typeassert", "nopanic":
		name = o.Kind + "@" + srcLine(o.Pos)
	}
	return strings.TrimPrefix(o.Func, libPrefix) + "/" + name
}

var srcCache = map[string][]string{}

func srcLine(pos string) string {
	parts := strings.Split(pos, ":")
	if len(parts) < 2 {
		return pos
	}
	lines, ok := srcCache[parts[0]]
	if !ok {
		f, err := os.Open(parts[0])
		if err == nil {
			sc := bufio.NewScanner(f)
			sc.Buffer(make([]byte, 1<<20), 1<<20)
			for sc.Scan() {
				lines = append(lines, sc.Text())
			}
			f.Close()
		}
		srcCache[parts[0]] = lines
	}
	n, _ := strconv.Atoi(parts[1])
	if n >= 1 && n <= len(lines) {
		t := strings.TrimSpace(lines[n-1])
		if len(t) > 70 {
			t = t[:70]
		}
		return t
	}
	return filepath.Base(parts[0])
}

func loadKnown() []KnownFinding {
	data, err := os.ReadFile("/verif/known_findings.json")
	if err != nil {
		return nil
	}
	var ks []KnownFinding
	json.Unmarshal(data, &ks)
	return ks
}

type Failure struct {
	Family string
	Obl    *Obl
	Err    string
	Func   string
}

func cmdCheck(args []string) int {
	if len(args) < 1 {
		fmt.Println("usage: govc check <ID> [--thorough] [--root dir] [--replay file]")
		return 2
	}
	id := args[0]
	fs := flag.NewFlagSet("check", flag.ExitOnError)
	thorough := fs.Bool("thorough", false, "thorough tier")
	root := fs.String("root", "/repo/lib", "module root (scratch copy for self-tests)")
	replay := fs.String("replay", "", "re-run a replay file")
	noEvidence := fs.Bool("no-evidence", false, "do not write the evidence file (self-tests)")
	writeBase := fs.Bool("write-baseline", false, "maintainer only: record the obligation families discharged by this run in /verif/baseline/<ID>.json (the accepted tree)")
	fs.Parse(args[1:])
	if os.Getenv("VERIF_TIER") == "thorough" {
		*thorough = true
	}
	seed := 0
	if s := os.Getenv("VERIF_SEED"); s != "" {
		seed, _ = strconv.Atoi(s)
	}
	cfg, err := loadConfig(filepath.Join("/verif/props", id+".json"))
	if err != nil {
		fmt.Println("ENGINE ERROR:", err)
		return 2
	}
	if *replay != "" {
		return runReplayFile(cfg, *replay, *root)
	}
	start := time.Now()
	tier := "quick"
	opts := RunOpts{TimeoutS: cfg.TimeoutQuick, Seed: seed, Keep: true}
	if opts.TimeoutS == 0 {
		opts.TimeoutS = 30
	}
	if *thorough {
		tier = "thorough"
		opts.TimeoutS = cfg.TimeoutThorough
		if opts.TimeoutS == 0 {
			opts.TimeoutS = 120
		}
		opts.All = true
	}
	run, err := RunProperty(cfg, *root, opts)
	if err == nil {
		for _, part := range cfg.Parts {
			pc, perr := loadConfig(filepath.Join("/verif/props", part+".json"))
			if perr != nil {
				err = perr
				break
			}
			pc.ID = cfg.ID
			if pc.TimeoutQuick > 0 && !*thorough {
				opts.TimeoutS = pc.TimeoutQuick
			}
			pr, perr := RunProperty(pc, *root, opts)
			if perr != nil {
				err = perr
				break
			}
			defer os.RemoveAll(pr.Dir)
			run.Funcs = append(run.Funcs, pr.Funcs...)
			run.Lemmas = append(run.Lemmas, pr.Lemmas...)
			run.Total += pr.Total
			run.Discharged += pr.Discharged
			run.Trusted = append(run.Trusted, pr.Trusted...)
			run.Uncovered = append(run.Uncovered, pr.Uncovered...)
			run.Eng.contractFiles = append(run.Eng.contractFiles, pr.Eng.contractFiles...)
			for k, v := range pr.SolverWins {
				run.SolverWins[k] += v
			}
			for k, v := range pr.SolverTime {
				run.SolverTime[k] += v
			}
			cfg.Syntactic = append(cfg.Syntactic, pc.Syntactic...)
			// the evidence lists the assumptions of every part, once
			for _, a := range pc.Assumptions {
				dup := false
				for _, b := range cfg.Assumptions {
					if a == b {
						dup = true
					}
				}
				if !dup {
					cfg.Assumptions = append(cfg.Assumptions, a)
				}
			}
			for _, k := range pc.Inline {
				cfg.Inline = append(cfg.Inline, k)
			}
		}
	}
	if err != nil {
		// the tree no longer loads/compiles under the verifier: undecided => fail closed
		fmt.Println("ENGINE ERROR:", err)
		rp := writeReplay(id, "engine-load", map[string]interface{}{"obligation": "engine-load", "error": err.Error(), "verdict": "undecided: the verifier could not load the tree"})
		fmt.Printf("VIOLATION property=%s replay=%s no-failing-input-found\n", id, rp)
		return 1
	}
	if os.Getenv("GOVC_DEBUG") == "" {
		defer os.RemoveAll(run.Dir)
	} else {
		fmt.Fprintln(os.Stderr, "keeping", run.Dir)
	}
	known := loadKnown()
	var failures []Failure
	nCoverSat, nCoverInc := 0, 0
	for _, fr := range run.Funcs {
		if fr.Err != "" {
			failures = append(failures, Failure{Family: strings.TrimPrefix(fr.Key, libPrefix) + "/engine", Err: fr.Err, Func: fr.Key})
		}
		for _, o := range fr.Obls {
			if o.Expect == "sat" {
				if o.Result == "sat" {
					nCoverSat++
				} else if o.OK() {
					nCoverInc++
				}
			}
			if !o.OK() {
				failures = append(failures, Failure{Family: o.Family(), Obl: o, Func: fr.Key})
			}
		}
	}
	for _, l := range run.Lemmas {
		if !l.OK() {
			failures = append(failures, Failure{Family: "spec/" + l.Name, Obl: l, Func: "spec"})
		}
	}
	if run.Total == 0 {
		failures = append(failures, Failure{Family: "engine/no-obligations", Err: "no obligations were generated (vacuous run)"})
	}
	// syntactic obligations
	synTotal, synFail := runSyntactic(cfg, run)
	for _, f := range synFail {
		failures = append(failures, f)
	}
	violations := 0
	seenFam := map[string]bool{}
	knownHit := map[string]bool{}
	var lines []string
	for _, f := range failures {
		if seenFam[f.Family] {
			continue
		}
		seenFam[f.Family] = true
		isKnown := false
		for _, k := range known {
			if k.Property == id && k.Status == "open" && k.Family == f.Family {
				isKnown = true
				if !knownHit[k.Family] {
					knownHit[k.Family] = true
					lines = append(lines, fmt.Sprintf("KNOWN-FINDING: property=%s %s %s", id, k.Family, k.What))
				}
			}
		}
		if isKnown {
			continue
		}
		violations++
		rp, reproduced := triage(cfg, run, f, *root)
		suffix := ""
		if !reproduced {
			suffix = " no-failing-input-found"
		}
		lines = append(lines, fmt.Sprintf("VIOLATION property=%s replay=%s%s", id, rp, suffix))
		detail := f.Err
		if f.Obl != nil {
			detail = fmt.Sprintf("%s result=%s solver=%s [%s] %s", f.Obl.Name, f.Obl.Result, f.Obl.Solver, f.Obl.Pos, trunc(f.Obl.Src, 100))
		}
		lines = append(lines, fmt.Sprintf("  failed obligation: %s :: %s", f.Family, detail))
	}
	if *writeBase && violations == 0 {
		fams := map[string]bool{}
		for _, fr := range run.Funcs {
			for _, o := range fr.Obls {
				if o.Expect != "sat" && o.OK() {
					fams[o.Family()] = true
				}
			}
		}
		var names []string
		for k := range fams {
			names = append(names, id+"::"+k)
		}
		sort.Strings(names)
		os.MkdirAll("/verif/baseline", 0755)
		data, _ := json.MarshalIndent(names, "", " ")
		os.WriteFile(filepath.Join("/verif/baseline", id+".json"), data, 0644)
	}
	// known findings that no longer fail are simply not printed (a fixed defect stays fixed)
	wall := time.Since(start).Seconds()
	if !*noEvidence {
		writeEvidence(cfg, run, tier, seed, wall, violations, nCoverSat, nCoverInc, synTotal, len(synFail), knownHit)
	}
	for _, l := range lines {
		fmt.Println(l)
	}
	fmt.Printf("property=%s tier=%s functions=%d obligations=%d discharged=%d syntactic=%d/%d covers_sat=%d covers_inconclusive=%d known_findings=%d violations=%d wall=%.1fs\n",
		id, tier, len(run.Funcs), run.Total, run.Discharged, synTotal-len(synFail), synTotal, nCoverSat, nCoverInc, len(knownHit), violations, wall)
	if violations > 0 {
		return 1
	}
	return 0
}

func writeReplay(id, name string, content map[string]interface{}) string {
	dir := filepath.Join("/verif/replay", id)
	os.MkdirAll(dir, 0755)
	p := filepath.Join(dir, sanitize(name)+".json")
	content["property"] = id
	data, _ := json.MarshalIndent(content, "", " ")
	os.WriteFile(p, data, 0644)
	return p
}

// triage: write the replay file for a failed obligation and try to reproduce it on the real code.
func triage(cfg *PropConfig, run *PropRun, f Failure, root string) (string, bool) {
	content := map[string]interface{}{"obligation": f.Family, "function": f.Func}
	baseline := loadBaseline()
	content["discharged_on_accepted_tree"] = baseline[cfg.ID+"::"+f.Family]
	if f.Obl == nil {
		content["verdict"] = "undecided: " + f.Err
		content["verifier_output"] = f.Err
		return writeReplay(cfg.ID, f.Family, content), false
	}
	o := f.Obl
	content["obligation_name"] = o.Name
	content["kind"] = o.Kind
	content["position"] = o.Pos
	content["clause"] = o.Src
	content["solver"] = o.Solver
	content["solver_result"] = o.Result
	content["verifier_output"] = trunc(o.Model, 20000)
	reproduced := false
	if (o.Result == "sat" || o.Candidate) && o.ctx != nil {
		inputs := modelInputs(o)
		content["model_inputs"] = inputs
		content["input_source"] = "solver model of the failed obligation"
		if drv := replayDrivers[cfg.ID]; drv != nil {
			ok, log, cmd := drv(cfg, o, inputs, root)
			content["replay_cmd"] = cmd
			content["replay_log"] = trunc(log, 8000)
			reproduced = ok
		}
	} else if drv := replayDrivers[cfg.ID]; drv != nil && o.ctx != nil {
		// the solver gave no model (unknown/timeout): the replay harness still runs the real function on its
		// built-in boundary inputs; a failing input found this way is a real one, but it is not the verifier's
		ok, log, cmd := drv(cfg, o, map[string]string{}, root)
		content["input_source"] = "replay harness defaults (the solver returned no model)"
		content["replay_cmd"] = cmd
		content["replay_log"] = trunc(log, 8000)
		reproduced = ok
	}
	if reproduced {
		content["verdict"] = "reproduced on the real code"
	} else {
		content["verdict"] = "no-failing-input-found: obligation failed (" + o.Result + "); counterexample not reproduced / not available"
	}
	return writeReplay(cfg.ID, f.Family, content), reproduced
}

func loadBaseline() map[string]bool {
	out := map[string]bool{}
	data, _ := os.ReadFile("/verif/baseline_obligations.json")
	var names []string
	json.Unmarshal(data, &names)
	for _, n := range names {
		out[n] = true
	}
	files, _ := filepath.Glob("/verif/baseline/*.json")
	for _, f := range files {
		if data, err := os.ReadFile(f); err == nil {
			var ns []string
			json.Unmarshal(data, &ns)
			for _, n := range ns {
				out[n] = true
			}
		}
	}
	return out
}

var defineRe = regexp.MustCompile(`\(define-fun ([^ ]+) \(\) ([^\n]+?)\n?\s+(.+?)\)\s*$`)

// modelInputs extracts the values of the function's parameters from the solver model.
func modelInputs(o *Obl) map[string]string {
	out := map[string]string{}
	sx, err := parseSexps(o.Model)
	if err != nil {
		// z3 prints "sat" first; strip first line
		if i := strings.Index(o.Model, "\n"); i >= 0 {
			sx, err = parseSexps(o.Model[i+1:])
		}
		if err != nil {
			return out
		}
	}
	// values of the labelled input terms (echo "INPUT label" followed by the get-value answer)
	lines := strings.Split(o.Model, "\n")
	for i := 0; i+1 < len(lines); i++ {
		l := strings.Trim(strings.TrimSpace(lines[i]), "\"")
		if !strings.HasPrefix(l, "INPUT ") {
			continue
		}
		// the answer may span several lines: collect until parentheses balance
		ans, depth := "", 0
		for j := i + 1; j < len(lines); j++ {
			ans += lines[j] + " "
			depth += strings.Count(lines[j], "(") - strings.Count(lines[j], ")")
			if depth <= 0 {
				break
			}
		}
		if vs, err := parseSexps(ans); err == nil && len(vs) == 1 && vs[0].isList && len(vs[0].list) == 1 && vs[0].list[0].isList && len(vs[0].list[0].list) == 2 {
			out["input:"+strings.TrimPrefix(l, "INPUT ")] = vs[0].list[0].list[1].String()
		}
	}
	var walk func(s *sexp)
	walk = func(s *sexp) {
		if !s.isList {
			return
		}
		if len(s.list) == 5 && s.list[0].atom == "define-fun" && s.list[2].isList && len(s.list[2].list) == 0 {
			out[s.list[1].atom] = s.list[4].String()
			return
		}
		for _, x := range s.list {
			walk(x)
		}
	}
	for _, s := range sx {
		walk(s)
	}
	return out
}

type replayFn func(cfg *PropConfig, o *Obl, inputs map[string]string, root string) (bool, string, string)

var replayDrivers = map[string]replayFn{}

func runReplayFile(cfg *PropConfig, path, root string) int {
	data, err := os.ReadFile(path)
	if err != nil {
		fmt.Println(err)
		return 2
	}
	var content map[string]interface{}
	json.Unmarshal(data, &content)
	fmt.Printf("replay file %s\n obligation: %v\n verdict: %v\n", path, content["obligation"], content["verdict"])
	if cmd, ok := content["replay_cmd"].(string); ok && cmd != "" {
		fmt.Println(" re-running:", cmd)
		out, err := runShell(cmd, 180)
		fmt.Println(out)
		if err != nil || strings.Contains(out, "REPLAY-VIOLATION") {
			fmt.Printf("VIOLATION property=%s replay=%s\n", cfg.ID, path)
			return 1
		}
	}
	return 0
}

func writeEvidence(cfg *PropConfig, run *PropRun, tier string, seed int, wall float64, violations, coverSat, coverInc, synTotal, synFail int, knownHit map[string]bool) {
	var samples []interface{}
	var fnNames []string
	kinds := map[string]int{}
	slowest := 0.0
	var all []*Obl
	for _, fr := range run.Funcs {
		fnNames = append(fnNames, strings.TrimPrefix(fr.Key, libPrefix))
		all = append(all, fr.Obls...)
	}
	all = append(all, run.Lemmas...)
	for _, o := range all {
		kinds[o.Kind]++
		if o.Time > slowest {
			slowest = o.Time
		}
	}
	step := len(all)/12 + 1
	for i := 0; i < len(all); i += step {
		o := all[i]
		samples = append(samples, map[string]interface{}{"function": strings.TrimPrefix(o.Func, libPrefix), "obligation": o.Name, "kind": o.Kind, "clause": trunc(o.Src, 160), "result": o.Result, "solver": o.Solver, "time_s": o.Time})
	}
	sort.Strings(fnNames)
	proofObl, proofDis := 0, 0
	for _, o := range all {
		if knownHit[o.Family()] {
			continue // reported as KNOWN-FINDING, neither claimed nor counted
		}
		if o.Expect == "unsat" {
			proofObl++
			if o.OK() {
				proofDis++
			}
		}
	}
	// known findings are failed obligations: they are reported, not counted as discharged
	trusted := append([]string{}, cfg.TrustedBase...)
	trusted = append(trusted,
		"govc SSA-to-SMT semantics (memory model, instruction semantics) over golang.org/x/tools/go/ssa v0.29.0",
		"SMT solvers z3 4.8.12, z3 5.1.0 (z3-new), cvc5 1.0.3 (first definite answer; thorough tier runs all and requires agreement)",
		"trusted models of bytes.Buffer, encoding/binary.Read/Write/ByteOrder, math.Float32bits/frombits, sync/atomic, sync.Mutex/RWMutex (ghost lock state), sync.Pool (opaque), append/copy; package strings (Contains, HasPrefix, HasSuffix, ToLower, Split) and rune conversions only as uninterpreted functions / length bounds (stdlib.go, instr.go)")
	for _, k := range run.Trusted {
		trusted = append(trusted, "trusted contract (not verified against its body): "+strings.TrimPrefix(k, libPrefix))
	}
	var inl []string
	for k := range mkProfile(cfg).Inline {
		inl = append(inl, strings.TrimPrefix(k, libPrefix))
	}
	sort.Strings(inl)
	var kf []string
	for k := range knownHit {
		kf = append(kf, k)
	}
	sort.Strings(kf)
	ev := map[string]interface{}{
		"property_id": cfg.ID, "tier": tier, "seed": seed, "level": "proof", "wall_s": wall, "violations": violations,
		"assumptions": append([]string{}, cfg.Assumptions...),
		"coverage": map[string]interface{}{
			"obligations": proofObl, "discharged": proofDis,
			"checker_cmd":  "/verif/check " + cfg.ID + map[string]string{"quick": "", "thorough": " --thorough"}[tier],
			"trusted_base": trusted,
			"functions_under_contract": fnNames,
			"functions_inlined_into_callers": inl,
			"obligations_by_kind": kinds,
			"lemmas": len(run.Lemmas),
			"vacuity_covers_sat": coverSat, "vacuity_covers_inconclusive": coverInc,
			"syntactic_obligations": synTotal, "syntactic_failed": synFail,
			"solver_wins": run.SolverWins, "solver_time_s": run.SolverTime, "slowest_obligation_s": slowest,
			"known_findings_reported": kf,
			"direct_primitive_callers_without_contract": run.Uncovered,
			"contract_files": run.Eng.contractFiles,
			"mode": cfg.Mode,
			"samples": samples,
			"explanation": cfg.LevelText,
		},
	}
	os.MkdirAll("/verif/evidence", 0755)
	data, _ := json.MarshalIndent(ev, "", " ")
	os.WriteFile(filepath.Join("/verif/evidence", cfg.ID+".json"), data, 0644)
}
