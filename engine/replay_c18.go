package main

import (
	"encoding/json"
	"fmt"
	"os"
	"os/exec"
	"path/filepath"
	"strings"
	"time"
)

// Replay driver for C18 (key encoding / row id packing): the model's values of the failing function's inputs
// are handed to an in-package test (injected with -overlay, nothing is written into the repository) that calls
// the REAL functions on them and checks the property's own oracle (round trip, byte layout, order against
// neighbouring values). The replay counts as reproduced only if that test fails with the REPLAY-VIOLATION marker.
func init() {
	replayDrivers["C18"] = replayC18
}

func replayC18(cfg *PropConfig, o *Obl, inputs map[string]string, root string) (bool, string, string) {
	if !strings.Contains(o.Func, "samehada/samehada_util::") {
		return false, "no replay driver for functions outside samehada_util", ""
	}
	tmpl, err := os.ReadFile("/verif/replay_drivers/C18/replay_test.go.txt")
	if err != nil {
		return false, err.Error(), ""
	}
	dir, err := os.MkdirTemp("", "govc-replay-")
	if err != nil {
		return false, err.Error(), ""
	}
	defer os.RemoveAll(dir)
	testFile := filepath.Join(dir, "zz_replay_c18_test.go")
	os.WriteFile(testFile, tmpl, 0644)
	target := filepath.Join(root, "samehada", "samehada_util", "zz_replay_c18_test.go")
	ov, _ := json.Marshal(map[string]map[string]string{"Replace": {target: testFile}})
	ovFile := filepath.Join(dir, "ov.json")
	os.WriteFile(ovFile, ov, 0644)
	in := map[string]string{}
	for k, v := range inputs {
		if strings.HasPrefix(k, "input:") {
			in[strings.TrimPrefix(k, "input:")] = v
		}
	}
	inJSON, _ := json.Marshal(in)
	fn := o.Func[strings.LastIndex(o.Func, "::")+2:]
	cmd := exec.Command("go", "test", "-overlay", ovFile, "-vet=off", "-count=1", "-timeout", "60s", "-run", "TestReplayC18", "./samehada/samehada_util/")
	cmd.Dir = root
	cmd.Env = append(os.Environ(), "GOFLAGS=-mod=mod", "GOPROXY=off", "GOSUMDB=off", "GOTOOLCHAIN=local", "REPLAY_FUNC="+fn, "REPLAY_INPUTS="+string(inJSON))
	done := make(chan struct{})
	var out []byte
	go func() { out, _ = cmd.CombinedOutput(); close(done) }()
	select {
	case <-done:
	case <-time.After(120 * time.Second):
		if cmd.Process != nil {
			cmd.Process.Kill()
		}
		<-done
	}
	cmdStr := fmt.Sprintf("cd %s && REPLAY_FUNC=%s REPLAY_INPUTS='%s' go test -overlay <ov: %s -> /verif/replay_drivers/C18/replay_test.go.txt> -vet=off -count=1 -timeout 60s -run TestReplayC18 ./samehada/samehada_util/", root, fn, string(inJSON), target)
	return strings.Contains(string(out), "REPLAY-VIOLATION"), string(out), cmdStr
}

// Replay driver for the lock manager obligations (C16, also used by the lock parts of C04/C05): no model inputs
// (the obligations quantify over whole lock tables); the harness searches the real lock manager for a failing
// history with a stated bound (<= 4 requests, 3 transactions, 2 rows) and compares with the abstract lock table.
func init() {
	for _, id := range []string{"C16", "C04", "C05"} {
		replayDrivers[id] = replayC16
	}
}

func replayC16(cfg *PropConfig, o *Obl, inputs map[string]string, root string) (bool, string, string) {
	if !strings.Contains(o.Func, "storage/access::LockManager.") && !strings.Contains(o.Func, "storage/access::TransactionManager.releaseLocks") {
		return false, "no replay driver for this function", ""
	}
	return runOverlayHarness(root, "/verif/replay_drivers/C16/replay_test.go.txt", filepath.Join("storage", "access"), "zz_replay_c16_test.go", "TestReplayC16", nil)
}

// runOverlayHarness injects a test file into a package of the tree under root with go test -overlay and runs it.
func runOverlayHarness(root, tmplPath, pkgDir, fileName, testName string, env []string) (bool, string, string) {
	tmpl, err := os.ReadFile(tmplPath)
	if err != nil {
		return false, err.Error(), ""
	}
	dir, err := os.MkdirTemp("", "govc-replay-")
	if err != nil {
		return false, err.Error(), ""
	}
	defer os.RemoveAll(dir)
	testFile := filepath.Join(dir, fileName)
	os.WriteFile(testFile, tmpl, 0644)
	target := filepath.Join(root, pkgDir, fileName)
	ov, _ := json.Marshal(map[string]map[string]string{"Replace": {target: testFile}})
	ovFile := filepath.Join(dir, "ov.json")
	os.WriteFile(ovFile, ov, 0644)
	cmd := exec.Command("go", "test", "-overlay", ovFile, "-vet=off", "-count=1", "-timeout", "100s", "-run", testName, "./"+filepath.ToSlash(pkgDir)+"/")
	cmd.Dir = root
	cmd.Env = append(append(os.Environ(), "GOFLAGS=-mod=mod", "GOPROXY=off", "GOSUMDB=off", "GOTOOLCHAIN=local"), env...)
	done := make(chan struct{})
	var out []byte
	go func() { out, _ = cmd.CombinedOutput(); close(done) }()
	select {
	case <-done:
	case <-time.After(150 * time.Second):
		if cmd.Process != nil {
			cmd.Process.Kill()
		}
		<-done
	}
	cmdStr := fmt.Sprintf("cd %s && %s go test -overlay <ov: %s -> %s> -vet=off -count=1 -timeout 100s -run %s ./%s/", root, strings.Join(env, " "), target, tmplPath, testName, filepath.ToSlash(pkgDir))
	return strings.Contains(string(out), "REPLAY-VIOLATION"), string(out), cmdStr
}
