package main

// Top-level verification of one function against its contract.

import (
	"fmt"
	"go/types"
	"sort"
	"strings"

	"golang.org/x/tools/go/ssa"
)

type FnResult struct {
	Key     string
	Obls    []*Obl
	Err     string
	Trusted bool
	ctx     *FnCtx
}

func (e *Engine) VerifyFunction(fn *ssa.Function, con *Contract, prof *Profile) (res *FnResult) {
	res = &FnResult{Key: funcKey(fn)}
	c := &FnCtx{eng: e, fn: fn, c: con, mode: prof.Mode, prof: prof, vals: map[ssa.Value]interface{}{}, regSort: map[string]string{}, declared: map[string]bool{}}
	res.ctx = c
	defer func() {
		if r := recover(); r != nil {
			if ee, ok := r.(engineErr); ok {
				res.Err = ee.msg
				res.Obls = c.obls
				return
			}
			panic(r)
		}
	}()
	c.decls = append(c.decls, "(declare-const alloc@0 Int)")
	c.facts = append(c.facts, "(> alloc@0 1)")
	st := &State{ver: map[string]string{}, alloc: "alloc@0", names: map[string]Term{}, g: "true"}
	fr := &frame{fn: fn, con: con, top: true, params: map[string]Term{}, lets: map[string]Term{}, atCallSeen: map[string]int{}}
	for _, p := range fn.Params {
		srt := c.sortOf(p.Type())
		t := Term{S: c.fresh("p_"+p.Name(), srt), Sort: srt, T: p.Type()}
		c.typeFacts(st, t, p.Type())
		c.vals[p] = t
		fr.params[p.Name()] = t
		st.names[p.Name()] = t
	}
	c.collectInputTerms(st, fn, fr)
	fr.oldState = st.clone()
	env := c.newEnv(fr, st)
	for _, l := range con.Lets {
		fr.lets[l.Label] = env.eval(l.E, "")
	}
	for _, r := range con.Requires {
		c.assume("", c.evalBool(env, r.E))
	}
	if con.NoPanicIf != nil {
		c.noPanicIf = c.evalBool(env, con.NoPanicIf.E)
	}
	o := c.oblige("cover", "cover#requires", "true", "false", "preconditions satisfiable")
	o.Expect = "sat"
	if fn.Blocks == nil {
		c.fail("function %s has no body", funcKey(fn))
	}
	// modifies (evaluated in the pre-state)
	whole := map[string]bool{}
	byRegion := map[string][]string{}
	envPre := c.newEnv(fr, fr.oldState)
	for _, m := range con.Modifies {
		for _, l := range c.modLocs(envPre, m) {
			if l.Ref == "" {
				whole[l.Region] = true
			} else {
				byRegion[l.Region] = append(byRegion[l.Region], l.Ref)
			}
		}
	}
	fr.modWhole, fr.modRefs = whole, byRegion
	fr.modKnown = !con.ModAll && !prof.DefaultHavoc
	c.execFunction(fr, st, "true")
	res0 := fn.Signature.Results()
	var resNames []string
	for i := 0; i < res0.Len(); i++ {
		resNames = append(resNames, res0.At(i).Name())
	}
	if len(fr.retGuards) == 0 {
		o := c.oblige("cover", "cover#returns", "true", "false", "some return reachable")
		_ = o
		c.obls = c.obls[:len(c.obls)-1]
	}
	for k := range fr.retGuards {
		rst := fr.retStates[k]
		g := fr.retGuards[k]
		if k < len(fr.retPos) {
			c.curPos = fr.retPos[k]
		}
		env := c.newEnv(fr, rst)
		env.results = fr.retVals[k]
		env.resNames = resNames
		for i, en := range con.Ensures {
			c.oblige("ensures", fmt.Sprintf("ensures#%s@r%d", clauseName(en, i), k), g, c.evalBool(env, en.E), en.Src)
		}
		if con.ModAll && len(con.Preserves) > 0 {
			for _, pn := range con.Preserves {
				for _, l := range c.modLocs(envPre, pn) {
					cur := c.get(rst, l.Region)
					if cur == l.Region+"@0" {
						continue
					}
					if strings.HasPrefix(c.regSort[l.Region], "(Array Int ") {
						c.oblige("frame", fmt.Sprintf("frame#%s@r%d", l.Region, k), g, fmt.Sprintf("(forall ((q_r Int)) (=> (and (<= 0 q_r) (< q_r alloc@0)) (= (select %s q_r) (select %s@0 q_r))))", cur, l.Region), "preserved region "+l.Region)
					} else {
						c.oblige("frame", fmt.Sprintf("frame#%s@r%d", l.Region, k), g, fmt.Sprintf("(= %s %s@0)", cur, l.Region), "preserved region "+l.Region)
					}
				}
			}
		}
		if prof.DefaultHavoc && !con.ModAll {
			// ghost profiles: the ghost state may change only where the contract says so
			var regs []string
			for r := range rst.ver {
				if strings.HasPrefix(r, "G_") {
					regs = append(regs, r)
				}
			}
			sort.Strings(regs)
			for _, r := range regs {
				cur := c.get(rst, r)
				if whole[r] || cur == r+"@0" {
					continue
				}
				c.oblige("frame", fmt.Sprintf("frame#%s@r%d", r, k), g, fmt.Sprintf("(= %s %s@0)", cur, r), "ghost "+r+" not in modifies")
			}
		}
		if !con.ModAll && !prof.DefaultHavoc {
			var regs []string
			for r := range rst.ver {
				regs = append(regs, r)
			}
			sort.Strings(regs)
			for _, r := range regs {
				if whole[r] || strings.HasPrefix(r, "L_") {
					continue
				}
				cur := c.get(rst, r)
				if cur == r+"@0" {
					continue
				}
				srt := c.regSort[r]
				if !strings.HasPrefix(srt, "(Array Int ") {
					// scalar region (global / ghost)
					c.oblige("frame", fmt.Sprintf("frame#%s@r%d", r, k), g, fmt.Sprintf("(= %s %s@0)", cur, r), "region "+r+" not in modifies")
					continue
				}
				var ne []string
				for _, ref := range byRegion[r] {
					ne = append(ne, fmt.Sprintf("(not (= q_r %s))", ref))
				}
				c.oblige("frame", fmt.Sprintf("frame#%s@r%d", r, k), g,
					fmt.Sprintf("(forall ((q_r Int)) (=> (and (<= 0 q_r) (< q_r alloc@0) %s) (= (select %s q_r) (select %s@0 q_r))))", strings.Join(ne, " "), cur, r),
					"only locations listed in modifies change in region "+r)
			}
		}
	}
	// a loop specification on a loop the symbolic execution never reached (dead code) is unbound: its
	// invariants and body_ensures would generate no obligation at all
	for _, li := range fr.loops {
		if li.spec != nil && li.explicit && li.hdrSt == nil {
			c.fail("contract unbound: loop %d of %s carries a specification but is never reached", li.ordinal, funcKey(fn))
		}
	}
	// an at_call clause whose callee is never called is unbound (the call it guarded is gone)
	for callee := range con.AtCall {
		if fr.atCallSeen[callee] == 0 {
			c.fail("contract unbound: at_call %s: %s no longer calls it", callee, funcKey(fn))
		}
	}
	for callee, css := range con.Capture {
		for _, cs := range css {
			if !con.captured[cs.Name] {
				c.fail("contract unbound: capture %s: %s no longer calls %s", cs.Name, funcKey(fn), callee)
			}
		}
	}
	con.captured = nil
	res.Obls = c.obls
	return res
}

// collectInputTerms: the entry-state terms a replay needs: scalar parameters, scalar fields of structs the
// parameters point to, and for interface parameters the dynamic type tag and the int32/float32 payloads.
func (c *FnCtx) collectInputTerms(st *State, fn *ssa.Function, fr *frame) {
	defer func() { recover() }() // best effort: never fail a verification because of replay bookkeeping
	scalar := func(srt string) bool {
		_, bv := isBV(srt)
		return srt == SInt || srt == SBool || srt == SFP32 || srt == SFP64 || bv
	}
	for _, p := range fn.Params {
		t := fr.params[p.Name()]
		switch u := p.Type().Underlying().(type) {
		case *types.Basic:
			if scalar(t.Sort) {
				c.inputTerms = append(c.inputTerms, InputTerm{p.Name(), t.S})
			}
		case *types.Pointer:
			if su, ok := u.Elem().Underlying().(*types.Struct); ok {
				for i := 0; i < su.NumFields(); i++ {
					ft := su.Field(i).Type()
					if _, ok := ft.Underlying().(*types.Basic); !ok || !scalar(c.sortOf(ft)) {
						continue
					}
					reg, _ := c.fieldRegion(u.Elem(), i)
					c.inputTerms = append(c.inputTerms, InputTerm{p.Name() + "." + su.Field(i).Name(), fmt.Sprintf("(select %s %s)", c.get(st, reg), t.S)})
				}
			}
		case *types.Interface:
			c.inputTerms = append(c.inputTerms, InputTerm{p.Name() + ".tag", fmt.Sprintf("(if_tag %s)", t.S)})
			for _, bt := range []types.Type{types.Typ[types.Int32], types.Typ[types.Float32]} {
				c.inputTerms = append(c.inputTerms, InputTerm{p.Name() + "." + bt.String(), c.unbox(t, bt).S})
			}
		}
	}
}

var _ = types.Typ
