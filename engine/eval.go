package main

// Evaluation of contract expressions to SMT terms.

import (
	"fmt"
	"go/constant"
	"go/types"
	"math/big"
	"strings"

	"golang.org/x/tools/go/ssa"
)

type Env struct {
	c        *FnCtx
	fr       *frame
	pkg      *types.Package
	st       *State
	old      *State
	names    map[string]Term
	oldNames map[string]Term
	params   map[string]Term
	lets     map[string]Term
	bind     map[string]Term
	results  []Term
	resNames []string
	oldAlloc string
	inOld    bool
	callee   bool // environment of a callee's contract at a call site: the caller's local names are not in scope
}

func (c *FnCtx) newEnv(fr *frame, st *State) *Env {
	e := &Env{c: c, fr: fr, st: st, old: fr.oldState, names: st.names, params: fr.params, lets: fr.lets, bind: map[string]Term{}}
	if fr.fn.Pkg != nil {
		e.pkg = fr.fn.Pkg.Pkg
	} else if fr.fn.Object() != nil {
		e.pkg = fr.fn.Object().Pkg()
	}
	if fr.oldState != nil {
		e.oldAlloc = fr.oldState.alloc
	}
	return e
}

func (e *Env) withBind(name string, t Term) *Env {
	n := *e
	n.bind = map[string]Term{}
	for k, v := range e.bind {
		n.bind[k] = v
	}
	n.bind[name] = t
	return &n
}

func (c *FnCtx) evalBool(env *Env, n *Node) string {
	t := env.eval(n, SBool)
	if t.Sort != SBool {
		c.fail("contract expression %s is not Boolean (sort %s)", n, t.Sort)
	}
	return t.S
}

func (c *FnCtx) evalInt(env *Env, n *Node) string {
	t := env.eval(n, SInt)
	return c.idxTerm(t)
}

func parseNum(s string) (*big.Int, bool) {
	v := new(big.Int)
	if strings.HasPrefix(s, "0x") || strings.HasPrefix(s, "0X") {
		_, ok := v.SetString(s[2:], 16)
		return v, ok
	}
	_, ok := v.SetString(s, 10)
	return v, ok
}

func (e *Env) lit(v *big.Int, want string) Term {
	if w, ok := isBV(want); ok {
		return Term{S: bvLitBig(v, w), Sort: want}
	}
	return Term{S: smtInt(v), Sort: SInt}
}

func (e *Env) resolveType(name string) types.Type {
	if strings.HasPrefix(name, "*") {
		return types.NewPointer(e.resolveType(name[1:]))
	}
	switch name {
	case "Int":
		return types.Typ[types.Int]
	case "Bool":
		return types.Typ[types.Bool]
	}
	if o := types.Universe.Lookup(name); o != nil {
		if tn, ok := o.(*types.TypeName); ok {
			return tn.Type()
		}
	}
	if i := strings.Index(name, "."); i >= 0 {
		pn, tn := name[:i], name[i+1:]
		for _, imp := range e.pkg.Imports() {
			if imp.Name() == pn {
				if o := imp.Scope().Lookup(tn); o != nil {
					return o.Type()
				}
			}
		}
		// any loaded package with that name
		for _, p := range e.c.eng.allPkgs {
			if p.Name() == pn {
				if o := p.Scope().Lookup(tn); o != nil {
					return o.Type()
				}
			}
		}
		e.c.fail("unknown type %s", name)
	}
	if o := e.pkg.Scope().Lookup(name); o != nil {
		if tn, ok := o.(*types.TypeName); ok {
			return tn.Type()
		}
	}
	e.c.fail("unknown type %s", name)
	return nil
}

func (e *Env) lookupName(name string) (Term, bool) {
	if t, ok := e.bind[name]; ok {
		return t, true
	}
	switch name {
	case "true", "false":
		return Term{S: name, Sort: SBool}, true
	case "nil":
		return Term{S: "0", Sort: SInt}, true
	case "result":
		if len(e.results) >= 1 {
			return e.results[0], true
		}
	}
	if strings.HasPrefix(name, "result") && len(name) == 7 && name[6] >= '0' && name[6] <= '9' {
		k := int(name[6] - '0')
		if k < len(e.results) {
			return e.results[k], true
		}
	}
	for i, rn := range e.resNames {
		if rn == name && i < len(e.results) {
			return e.results[i], true
		}
	}
	if t, ok := e.lets[name]; ok {
		return t, true
	}
	if e.callee {
		if t, ok := e.params[name]; ok {
			return t, true
		}
	}
	// an address-taken Go variable lives in a cell: its current value is the cell's content
	if e.fr != nil && e.fr.fn != nil && !e.inOld && !e.callee {
		if a := allocNamed(e.fr.fn, name); a != nil {
			if pv, ok := e.c.vals[a].(Term); ok {
				el := derefT(a.Type())
				if pv.Sort == "LOCAL" {
					return Term{S: e.c.get(e.st, strings.TrimPrefix(pv.S, "LOCAL:")), Sort: e.c.sortOf(el), T: el}, true
				}
				return e.c.loadPtr(e.st, pv, el), true
			}
		}
	}
	if _, addr := e.names["&"+name]; !addr {
		if t, ok := e.names[name]; ok {
			return t, true
		}
	}
	if p, ok := e.names["&"+name]; ok {
		// escaping local: current content of its cell
		if p.Sort == "LOCAL" {
			el := derefT(p.T)
			return Term{S: e.c.get(e.st, strings.TrimPrefix(p.S, "LOCAL:")), Sort: e.c.sortOf(el), T: el}, true
		}
		return e.c.loadPtr(e.st, p, derefT(p.T)), true
	}
	if t, ok := e.params[name]; ok {
		return t, true
	}
	if reg, ok := e.c.ghostRegion(name); ok {
		return Term{S: e.c.get(e.st, reg), Sort: e.c.regSort[reg]}, true
	}
	if e.pkg != nil {
		if o := e.pkg.Scope().Lookup(name); o != nil {
			if t, ok := e.objTerm(o); ok {
				return t, true
			}
		}
	}
	return Term{}, false
}

func (e *Env) objTerm(o types.Object) (Term, bool) {
	switch k := o.(type) {
	case *types.Const:
		srt := e.c.sortOf(k.Type())
		switch k.Val().Kind() {
		case constant.Int:
			v, _ := new(big.Int).SetString(k.Val().ExactString(), 10)
			t := e.lit(v, srt)
			t.T = k.Type()
			return t, true
		case constant.Bool:
			return Term{S: fmt.Sprint(constant.BoolVal(k.Val())), Sort: SBool, T: k.Type()}, true
		case constant.String:
			return Term{S: e.c.eng.strConst(constant.StringVal(k.Val())), Sort: SInt, T: k.Type()}, true
		}
	case *types.Var:
		if k.Parent() == k.Pkg().Scope() {
			reg := e.c.globalRegion("GLOBAL:"+k.Pkg().Path()+"."+k.Name(), k.Type())
			return Term{S: e.c.get(e.st, reg), Sort: e.c.sortOf(k.Type()), T: k.Type()}, true
		}
	}
	return Term{}, false
}

func isNumLit(n *Node) bool { return n.Op == "num" }

func (e *Env) eval(n *Node, want string) Term {
	c := e.c
	switch n.Op {
	case "num":
		v, ok := parseNum(n.Name)
		if !ok {
			c.fail("bad number %s", n.Name)
		}
		return e.lit(v, want)
	case "str":
		return Term{S: c.eng.strConst(n.Name), Sort: SInt, T: types.Typ[types.String]}
	case "id":
		if t, ok := e.lookupName(n.Name); ok {
			return t
		}
		// nullary spec function / constant from the prelude
		if sig, ok := c.eng.sigs[n.Name]; ok && len(sig.Params) == 0 {
			return Term{S: n.Name, Sort: sig.Ret}
		}
		c.fail("unknown name %q in contract of %s", n.Name, funcKey(e.fr.fn))
	case "un":
		switch n.Name {
		case "!":
			x := e.eval(n.Args[0], SBool)
			return Term{S: "(not " + x.S + ")", Sort: SBool}
		case "-":
			x := e.eval(n.Args[0], want)
			if x.Sort == SInt {
				return Term{S: "(- " + x.S + ")", Sort: SInt}
			}
			return Term{S: "(bvneg " + x.S + ")", Sort: x.Sort, T: x.T}
		case "^":
			x := e.eval(n.Args[0], want)
			if _, ok := isBV(x.Sort); ok {
				return Term{S: "(bvnot " + x.S + ")", Sort: x.Sort, T: x.T}
			}
			c.fail("^ on non-bitvector in contract")
		case "*":
			p := e.eval(n.Args[0], SInt)
			if p.T == nil {
				c.fail("cannot dereference untyped term %s", n.Args[0])
			}
			r := c.loadPtr(e.st, p, derefT(p.T))
			e.intFacts(r)
			return r
		}
	case "bin":
		return e.evalBin(n, want)
	case "sel":
		return e.evalSel(n)
	case "idx":
		return e.evalIdx(n)
	case "slice":
		x := e.eval(n.Args[0], "")
		lo, hi := "0", ""
		if n.Args[1] != nil {
			lo = c.idxTerm(e.eval(n.Args[1], SInt))
		}
		if n.Args[2] != nil {
			hi = c.idxTerm(e.eval(n.Args[2], SInt))
		}
		if x.Sort == SSlice {
			if hi == "" {
				hi = slLen(x.S)
			}
			return Term{S: mkSlice(slArr(x.S), add(slOff(x.S), lo), sub(hi, lo), sub(slCap(x.S), lo)), Sort: SSlice, T: x.T}
		}
		c.fail("slice expression on %s", x.Sort)
	case "call":
		return e.evalCall(n, want)
	case "forall", "exists":
		ne := e
		var bs []string
		var ranges []string
		for _, b := range n.Binders {
			gt := e.resolveType(b.Type)
			srt := c.sortOf(gt)
			if b.Type == "int" || b.Type == "Int" {
				srt = SInt
			} else if srt == SInt {
				// a bound variable of a Go integer type ranges over that type's values only
				if lo, hi, ok := intRange(gt); ok {
					ranges = append(ranges, fmt.Sprintf("(<= %s q_%s) (<= q_%s %s)", lo, b.Name, b.Name, hi))
				}
			}
			vn := "q_" + b.Name
			ne = ne.withBind(b.Name, Term{S: vn, Sort: srt, T: gt})
			bs = append(bs, fmt.Sprintf("(%s %s)", vn, srt))
		}
		body := ne.eval(n.Args[0], SBool)
		if body.Sort != SBool {
			c.fail("quantifier body not Boolean: %s", n.Args[0])
		}
		if len(ranges) > 0 {
			if n.Op == "forall" {
				body.S = fmt.Sprintf("(=> (and %s) %s)", strings.Join(ranges, " "), body.S)
			} else {
				body.S = fmt.Sprintf("(and %s %s)", strings.Join(ranges, " "), body.S)
			}
		}
		if len(n.Triggers) > 0 {
			var pats []string
			for _, set := range n.Triggers {
				var ts []string
				for _, t := range set {
					ts = append(ts, ne.eval(t, "").S)
				}
				pats = append(pats, ":pattern ("+strings.Join(ts, " ")+")")
			}
			return Term{S: fmt.Sprintf("(%s (%s) (! %s %s))", n.Op, strings.Join(bs, " "), body.S, strings.Join(pats, " ")), Sort: SBool}
		}
		return Term{S: fmt.Sprintf("(%s (%s) %s)", n.Op, strings.Join(bs, " "), body.S), Sort: SBool}
	}
	c.fail("cannot evaluate %s", n)
	return Term{}
}

func (e *Env) evalBin(n *Node, want string) Term {
	c := e.c
	op := n.Name
	switch op {
	case "&&", "||", "==>", "<==>":
		a := e.eval(n.Args[0], SBool)
		b := e.eval(n.Args[1], SBool)
		if a.Sort != SBool || b.Sort != SBool {
			c.fail("Boolean operator %s on non-Boolean operands in %s", op, n)
		}
		so := map[string]string{"&&": "and", "||": "or", "==>": "=>", "<==>": "="}[op]
		return Term{S: fmt.Sprintf("(%s %s %s)", so, a.S, b.S), Sort: SBool}
	}
	var a, b Term
	isCmp := op == "==" || op == "!=" || op == "<" || op == "<=" || op == ">" || op == ">="
	hint := want
	if isCmp {
		hint = ""
	}
	if isNumLit(n.Args[0]) && !isNumLit(n.Args[1]) {
		b = e.eval(n.Args[1], hint)
		a = e.eval(n.Args[0], b.Sort)
	} else {
		a = e.eval(n.Args[0], hint)
		b = e.eval(n.Args[1], a.Sort)
	}
	if a.Sort != b.Sort {
		c.fail("sort mismatch in %s: %s vs %s", n, a.Sort, b.Sort)
	}
	gt := a.T
	if gt == nil {
		gt = b.T
	}
	switch op {
	case "==":
		// structural equality also on floats (use feq() for IEEE equality)
		return Term{S: fmt.Sprintf("(= %s %s)", a.S, b.S), Sort: SBool}
	case "!=":
		return Term{S: fmt.Sprintf("(not (= %s %s))", a.S, b.S), Sort: SBool}
	}
	if a.Sort == SInt {
		m := map[string]string{"<": "<", "<=": "<=", ">": ">", ">=": ">=", "+": "+", "-": "-", "*": "*", "/": "div", "%": "mod"}
		so, ok := m[op]
		if !ok {
			c.fail("operator %s not supported on Int in contracts", op)
		}
		srt := SInt
		if isCmp {
			srt = SBool
		}
		return Term{S: fmt.Sprintf("(%s %s %s)", so, a.S, b.S), Sort: srt, T: nil}
	}
	if a.Sort == SFP32 || a.Sort == SFP64 {
		m := map[string]string{"<": "fp.lt", "<=": "fp.leq", ">": "fp.gt", ">=": "fp.geq"}
		so, ok := m[op]
		if !ok {
			c.fail("operator %s not supported on floats in contracts", op)
		}
		return Term{S: fmt.Sprintf("(%s %s %s)", so, a.S, b.S), Sort: SBool}
	}
	if _, ok := isBV(a.Sort); ok {
		signed := false
		if isCmp || op == "/" || op == "%" || op == ">>" {
			if gt == nil {
				c.fail("signedness unknown for %s in %s (use ult/slt)", op, n)
			}
			_, signed, _, _ = intWidth(gt)
		}
		var so string
		switch op {
		case "+":
			so = "bvadd"
		case "-":
			so = "bvsub"
		case "*":
			so = "bvmul"
		case "&":
			so = "bvand"
		case "|":
			so = "bvor"
		case "^":
			so = "bvxor"
		case "<<":
			so = "bvshl"
		case ">>":
			so = "bvlshr"
			if signed {
				so = "bvashr"
			}
		case "/":
			so = "bvudiv"
			if signed {
				so = "bvsdiv"
			}
		case "%":
			so = "bvurem"
			if signed {
				so = "bvsrem"
			}
		case "<":
			so = "bvult"
			if signed {
				so = "bvslt"
			}
		case "<=":
			so = "bvule"
			if signed {
				so = "bvsle"
			}
		case ">":
			so = "bvugt"
			if signed {
				so = "bvsgt"
			}
		case ">=":
			so = "bvuge"
			if signed {
				so = "bvsge"
			}
		}
		srt := a.Sort
		if isCmp {
			srt = SBool
		}
		return Term{S: fmt.Sprintf("(%s %s %s)", so, a.S, b.S), Sort: srt, T: gt}
	}
	c.fail("operator %s on sort %s", op, a.Sort)
	return Term{}
}

// fieldPath finds a (possibly promoted) field.
func fieldPath(t types.Type, pkg *types.Package, name string) ([]int, bool) {
	obj, idx, _ := types.LookupFieldOrMethod(t, true, pkg, name)
	if _, ok := obj.(*types.Var); ok {
		return idx, true
	}
	// unexported field of another package
	var search func(t types.Type, depth int) ([]int, bool)
	search = func(t types.Type, depth int) ([]int, bool) {
		if p, ok := t.Underlying().(*types.Pointer); ok {
			t = p.Elem()
		}
		st, ok := t.Underlying().(*types.Struct)
		if !ok || depth > 3 {
			return nil, false
		}
		for i := 0; i < st.NumFields(); i++ {
			if st.Field(i).Name() == name {
				return []int{i}, true
			}
		}
		for i := 0; i < st.NumFields(); i++ {
			if st.Field(i).Embedded() {
				if p, ok := search(st.Field(i).Type(), depth+1); ok {
					return append([]int{i}, p...), true
				}
			}
		}
		return nil, false
	}
	return search(t, 0)
}

func (e *Env) evalSel(n *Node) Term {
	c := e.c
	// package-qualified name?
	if n.Args[0].Op == "id" {
		if _, ok := e.lookupName(n.Args[0].Name); !ok {
			pn := n.Args[0].Name
			var cands []*types.Package
			if e.pkg != nil {
				cands = append(cands, e.pkg.Imports()...)
			}
			cands = append(cands, c.eng.allPkgs...)
			for _, p := range cands {
				if p.Name() == pn {
					if o := p.Scope().Lookup(n.Name); o != nil {
						ne := *e
						ne.pkg = p
						if t, ok := ne.objTerm(o); ok {
							return t
						}
					}
				}
			}
			c.fail("unknown qualified name %s.%s", pn, n.Name)
		}
	}
	x := e.eval(n.Args[0], "")
	if x.T == nil {
		c.fail("field selection %s on untyped term", n)
	}
	path, ok := fieldPath(x.T, e.pkg, n.Name)
	if !ok {
		c.fail("no field %s in %s", n.Name, x.T)
	}
	cur := x
	for _, i := range path {
		cur = e.selField(cur, i)
	}
	return cur
}

func (e *Env) selField(x Term, i int) Term {
	c := e.c
	if p, ok := x.T.Underlying().(*types.Pointer); ok {
		st := p.Elem()
		su := st.Underlying().(*types.Struct)
		ft := su.Field(i).Type()
		if _, ok := isWrapper(st); ok && i == 0 {
			return Term{S: x.S, Sort: SInt, T: types.NewPointer(ft)}
		}
		switch ft.Underlying().(type) {
		case *types.Struct, *types.Array:
			return Term{S: subRef(x.S, i), Sort: SInt, T: types.NewPointer(ft)}
		}
		reg, _ := c.fieldRegion(st, i)
		res := Term{S: fmt.Sprintf("(select %s %s)", c.get(e.st, reg), x.S), Sort: c.sortOf(ft), T: ft}
		e.intFacts(res)
		if strings.HasSuffix(c.get(e.st, reg), "@0") && !strings.Contains(x.S, "q_") {
			// heap invariant of the entry state: stored references are allocated
			switch ft.Underlying().(type) {
			case *types.Pointer, *types.Slice, *types.Map:
				key := "tf:" + res.S
				if !c.declared[key] {
					c.declared[key] = true
					es := &State{alloc: "alloc@0"}
					// only objects of the entry heap: a region still at its entry version is also read at
					// references allocated later (fresh objects of callees that modify nothing)
					c.tfGuard = fmt.Sprintf("(and (<= 0 %s) (< %s alloc@0))", x.S, x.S)
					c.typeFacts(es, res, ft)
					c.tfGuard = ""
					if e.st.alloc != "0" { // (not in the dummy state used to resolve region names)
						c.typeFacts(e.st, res, ft)
					}
				}
			}
		}
		return res
	}
	su, ok := x.T.Underlying().(*types.Struct)
	if !ok {
		c.fail("field selection on %s", x.T)
	}
	ft := su.Field(i).Type()
	return Term{S: fmt.Sprintf("(%s_%s %s)", x.Sort, sanitize(su.Field(i).Name()), x.S), Sort: c.sortOf(ft), T: ft}
}

func (e *Env) evalIdx(n *Node) Term {
	c := e.c
	x := e.eval(n.Args[0], "")
	if x.T != nil {
		switch u := x.T.Underlying().(type) {
		case *types.Slice:
			i := c.idxTerm(e.eval(n.Args[1], SInt))
			reg := c.elemRegion(u.Elem())
			return Term{S: fmt.Sprintf("(select (select %s %s) (idx %s %s))", c.get(e.st, reg), slArr(x.S), slOff(x.S), i), Sort: c.sortOf(u.Elem()), T: u.Elem()}
		case *types.Pointer:
			if at, ok := u.Elem().Underlying().(*types.Array); ok {
				i := c.idxTerm(e.eval(n.Args[1], SInt))
				reg := c.elemRegion(at.Elem())
				return Term{S: fmt.Sprintf("(select (select %s %s) %s)", c.get(e.st, reg), x.S, i), Sort: c.sortOf(at.Elem()), T: at.Elem()}
			}
		case *types.Map:
			k := e.eval(n.Args[1], c.sortOf(u.Key()))
			_, v := c.mapRegions(u)
			return Term{S: fmt.Sprintf("(select (select %s %s) %s)", c.get(e.st, v), x.S, k.S), Sort: c.sortOf(u.Elem()), T: u.Elem()}
		case *types.Array:
			i := c.idxTerm(e.eval(n.Args[1], SInt))
			return Term{S: fmt.Sprintf("(select %s %s)", x.S, i), Sort: c.sortOf(u.Elem()), T: u.Elem()}
		}
	}
	if strings.HasPrefix(x.Sort, "(Array ") {
		ks, vs := arraySorts(x.Sort)
		k := e.eval(n.Args[1], ks)
		ki := k.S
		if ks == SInt && k.Sort != SInt {
			ki = c.idxTerm(k)
		}
		return Term{S: fmt.Sprintf("(select %s %s)", x.S, ki), Sort: vs}
	}
	c.fail("cannot index %s (sort %s)", n.Args[0], x.Sort)
	return Term{}
}

// arraySorts splits "(Array K V)".
func arraySorts(s string) (string, string) {
	inner := s[len("(Array ") : len(s)-1]
	depth := 0
	for i, ch := range inner {
		switch ch {
		case '(':
			depth++
		case ')':
			depth--
		case ' ':
			if depth == 0 {
				return inner[:i], inner[i+1:]
			}
		}
	}
	return inner, ""
}

func (e *Env) evalCall(n *Node, want string) Term {
	c := e.c
	if n.Args[0].Op != "id" {
		c.fail("call of non-identifier in contract: %s", n)
	}
	name := n.Args[0].Name
	args := n.Args[1:]
	switch name {
	case "old":
		if e.old == nil {
			c.fail("old() without pre-state")
		}
		ne := *e
		ne.st = e.old
		ne.inOld = true
		if e.oldNames != nil {
			ne.names = e.oldNames
		}
		return ne.eval(args[0], want)
	case "len":
		x := e.eval(args[0], "")
		switch {
		case x.Sort == SSlice:
			return Term{S: slLen(x.S), Sort: SInt}
		case x.T != nil && isStringT(x.T):
			return Term{S: fmt.Sprintf("(strlen %s)", x.S), Sort: SInt}
		case x.T != nil:
			if p, ok := x.T.Underlying().(*types.Pointer); ok {
				if at, ok := p.Elem().Underlying().(*types.Array); ok {
					return Term{S: fmt.Sprint(at.Len()), Sort: SInt}
				}
			}
		}
		c.fail("len of %s", args[0])
	case "cap":
		x := e.eval(args[0], "")
		return Term{S: slCap(x.S), Sort: SInt}
	case "arr":
		x := e.eval(args[0], "")
		if x.Sort == SSlice && x.T != nil {
			et := x.T.Underlying().(*types.Slice).Elem()
			reg := c.elemRegion(et)
			return Term{S: fmt.Sprintf("(select %s %s)", c.get(e.st, reg), slArr(x.S)), Sort: fmt.Sprintf("(Array Int %s)", c.sortOf(et))}
		}
		c.fail("arr() of non-slice %s", args[0])
	case "off":
		x := e.eval(args[0], "")
		return Term{S: slOff(x.S), Sort: SInt}
	case "store":
		a := e.eval(args[0], "")
		ks, vs := arraySorts(a.Sort)
		k := e.eval(args[1], ks)
		v := e.eval(args[2], vs)
		return Term{S: fmt.Sprintf("(store %s %s %s)", a.S, k.S, v.S), Sort: a.Sort}
	case "alloc":
		return Term{S: e.st.alloc, Sort: SInt}
	case "elems":
		gt := e.resolveType(typeArg(args[0]))
		reg := c.elemRegion(gt)
		return Term{S: c.get(e.st, reg), Sort: c.regSort[reg]}
	case "addr":
		// addr(x) / addr(x.f.g): address of an address-taken local variable or of a by-value struct field inside it
		return e.addrOf(args[0])
	case "ref":
		x := e.eval(args[0], "")
		if x.Sort == SSlice {
			return Term{S: slArr(x.S), Sort: SInt}
		}
		if x.Sort == SIface {
			return Term{S: fmt.Sprintf("(if_val %s)", x.S), Sort: SInt}
		}
		return Term{S: x.S, Sort: SInt}
	case "has":
		m := e.eval(args[0], "")
		mt := m.T.Underlying().(*types.Map)
		d, _ := c.mapRegions(mt)
		k := e.eval(args[1], c.sortOf(mt.Key()))
		return Term{S: fmt.Sprintf("(select (select %s %s) %s)", c.get(e.st, d), m.S, k.S), Sort: SBool}
	case "dom":
		m := e.eval(args[0], "")
		mt := m.T.Underlying().(*types.Map)
		d, _ := c.mapRegions(mt)
		return Term{S: fmt.Sprintf("(select %s %s)", c.get(e.st, d), m.S), Sort: fmt.Sprintf("(Array %s Bool)", c.sortOf(mt.Key()))}
	case "vals":
		m := e.eval(args[0], "")
		mt := m.T.Underlying().(*types.Map)
		_, v := c.mapRegions(mt)
		return Term{S: fmt.Sprintf("(select %s %s)", c.get(e.st, v), m.S), Sort: fmt.Sprintf("(Array %s %s)", c.sortOf(mt.Key()), c.sortOf(mt.Elem()))}
	case "fresh":
		x := e.eval(args[0], "")
		r := x.S
		if x.Sort == SSlice {
			r = slArr(x.S)
		}
		return Term{S: fmt.Sprintf("(and (>= %s %s) (< %s %s))", r, e.oldAlloc, r, e.st.alloc), Sort: SBool}
	case "allocated":
		x := e.eval(args[0], "")
		r := x.S
		if x.Sort == SSlice {
			r = slArr(x.S)
		}
		return Term{S: fmt.Sprintf("(and (<= 0 %s) (< %s %s))", r, r, e.st.alloc), Sort: SBool}
	case "feq":
		// IEEE equality on floats (Go's == on float32/float64)
		a := e.eval(args[0], "")
		b := e.eval(args[1], a.Sort)
		return Term{S: fmt.Sprintf("(fp.eq %s %s)", a.S, b.S), Sort: SBool}
	case "ite":
		cnd := e.eval(args[0], SBool)
		a := e.eval(args[1], want)
		b := e.eval(args[2], a.Sort)
		return Term{S: fmt.Sprintf("(ite %s %s %s)", cnd.S, a.S, b.S), Sort: a.Sort, T: a.T}
	case "istype":
		x := e.eval(args[0], "")
		gt := e.resolveType(typeArg(args[1]))
		return Term{S: fmt.Sprintf("(= (if_tag %s) %d)", x.S, c.eng.typeID(gt)), Sort: SBool}
	case "as":
		x := e.eval(args[0], "")
		gt := e.resolveType(typeArg(args[1]))
		return c.unbox(x, gt)
	case "isnil":
		x := e.eval(args[0], "")
		switch x.Sort {
		case SIface:
			// the nil interface value, exactly as the code's "x == nil" is translated
			return Term{S: fmt.Sprintf("(= %s (mk_Iface 0 0))", x.S), Sort: SBool}
		case SSlice:
			return Term{S: fmt.Sprintf("(= (sl_arr %s) 0)", x.S), Sort: SBool}
		}
		return Term{S: fmt.Sprintf("(= %s 0)", x.S), Sort: SBool}
	case "toint":
		x := e.eval(args[0], "")
		return Term{S: c.idxTerm(x), Sort: SInt}
	case "tobv8", "tobv16", "tobv32", "tobv64":
		x := e.eval(args[0], SInt)
		var w int
		fmt.Sscanf(name, "tobv%d", &w)
		if _, ok := isBV(x.Sort); ok {
			return x
		}
		return Term{S: fmt.Sprintf("((_ int2bv %d) %s)", w, x.S), Sort: bvSort(w)}
	}
	sig, ok := c.eng.sigs[name]
	if !ok {
		c.fail("unknown spec function %q", name)
	}
	if len(sig.Params) != len(args) {
		c.fail("spec function %s expects %d args, got %d", name, len(sig.Params), len(args))
	}
	var as []string
	for i, a := range args {
		t := e.eval(a, sig.Params[i])
		if t.Sort != sig.Params[i] {
			if sig.Params[i] == SInt {
				if _, isbv := isBV(t.Sort); isbv {
					t = Term{S: c.idxTerm(t), Sort: SInt}
				}
			}
			if t.Sort != sig.Params[i] {
				c.fail("argument %d of %s: sort %s, expected %s (in %s)", i, name, t.Sort, sig.Params[i], n)
			}
		}
		as = append(as, t.S)
	}
	if len(as) == 0 {
		return Term{S: name, Sort: sig.Ret}
	}
	return Term{S: fmt.Sprintf("(%s %s)", name, strings.Join(as, " ")), Sort: sig.Ret}
}

func typeArg(n *Node) string {
	if n.Op == "un" && n.Name == "*" {
		return "*" + typeArg(n.Args[0])
	}
	if n.Op == "id" {
		return n.Name
	}
	if n.Op == "sel" && n.Args[0].Op == "id" {
		return n.Args[0].Name + "." + n.Name
	}
	return n.String()
}

// ---------- modifies ----------

type ModLoc struct {
	Region string
	Ref    string // "" = whole region
}

func (c *FnCtx) modLocs(env *Env, n *Node) []ModLoc {
	switch n.Op {
	case "un":
		if n.Name == "*" {
			p := env.eval(n.Args[0], SInt)
			if p.T == nil {
				c.fail("modifies *%s: untyped", n.Args[0])
			}
			return c.pointeeLocs(derefT(p.T), p.S)
		}
	case "sel":
		x := env.eval(n.Args[0], "")
		if x.T != nil {
			path, ok := fieldPath(x.T, env.pkg, n.Name)
			if ok {
				cur := x
				for _, i := range path[:len(path)-1] {
					cur = env.selField(cur, i)
				}
				st := derefT(cur.T)
				last := path[len(path)-1]
				if _, okw := isWrapper(st); okw && last == 0 {
					c.fail("modifies of wrapper field")
				}
				ft := st.Underlying().(*types.Struct).Field(last).Type()
				var out []ModLoc
				for _, r := range c.regionsOfValueAt(st, last, ft) {
					out = append(out, ModLoc{r, cur.S})
				}
				return out
			}
		}
	case "call":
		if n.Args[0].Op == "id" {
			switch n.Args[0].Name {
			case "arr":
				x := env.eval(n.Args[1], "")
				et := x.T.Underlying().(*types.Slice).Elem()
				return []ModLoc{{c.elemRegion(et), slArr(x.S)}}
			case "mapof":
				m := env.eval(n.Args[1], "")
				d, v := c.mapRegions(m.T.Underlying().(*types.Map))
				return []ModLoc{{d, m.S}, {v, m.S}}
			case "region":
				name := n.Args[1].Name
				if _, ok := c.regSort[name]; !ok {
					c.fail("modifies region(%s): unknown region", name)
				}
				return []ModLoc{{name, ""}}
			case "alltype":
				gt := env.resolveType(typeArg(n.Args[1]))
				var out []ModLoc
				for _, r := range c.regionsOfPointee(gt) {
					out = append(out, ModLoc{r, ""})
				}
				return out
					case "elems":
				gt := env.resolveType(typeArg(n.Args[1]))
				return []ModLoc{{c.elemRegion(gt), ""}}
			case "fieldof":
				gt := env.resolveType(typeArg(n.Args[1]))
				path, ok := fieldPath(gt, env.pkg, n.Args[2].Name)
				if !ok || len(path) != 1 {
					c.fail("fieldof(%s, %s): no such direct field", typeArg(n.Args[1]), n.Args[2].Name)
				}
				ft := gt.Underlying().(*types.Struct).Field(path[0]).Type()
				var out []ModLoc
				for _, r := range c.regionsOfValueAt(gt, path[0], ft) {
					out = append(out, ModLoc{r, ""})
				}
				return out
			}
		}
	case "id":
		if reg, ok := c.ghostRegion(n.Name); ok {
			return []ModLoc{{reg, ""}}
		}
	}
	c.fail("unsupported modifies location %s", n)
	return nil
}

func (c *FnCtx) modRegions(env *Env, n *Node) []string {
	var out []string
	for _, l := range c.modLocs(env, n) {
		out = append(out, l.Region)
	}
	return out
}

// subRef: the derived reference of the by-value aggregate field i of the object at ref
// (negative, hence disjoint from every ordinary reference; injective in (ref, i)).
// addrOf: the pointer term for addr(...) in contracts.
func (e *Env) addrOf(n *Node) Term {
	c := e.c
	switch n.Op {
	case "id":
		if p, ok := e.names["&"+n.Name]; ok && p.Sort == SInt {
			return p
		}
		if e.fr != nil && e.fr.fn != nil {
			if a := allocNamed(e.fr.fn, n.Name); a != nil {
				if pv, ok := c.vals[a].(Term); ok && pv.Sort == SInt {
					return pv
				}
			}
		}
		c.fail("addr(%s): not an address-taken variable with a heap cell", n.Name)
	case "sel":
		base := e.addrOf(n.Args[0])
		pt, ok := base.T.Underlying().(*types.Pointer)
		if !ok {
			c.fail("addr(%s): base is not a pointer", n)
		}
		su, ok := pt.Elem().Underlying().(*types.Struct)
		if !ok {
			c.fail("addr(%s): base does not point to a struct", n)
		}
		for i := 0; i < su.NumFields(); i++ {
			if su.Field(i).Name() == n.Name {
				ft := su.Field(i).Type()
				switch ft.Underlying().(type) {
				case *types.Struct, *types.Array:
					return Term{S: subRef(base.S, i), Sort: SInt, T: types.NewPointer(ft)}
				}
				c.fail("addr(%s): only by-value struct/array fields have an address in this model", n)
			}
		}
		c.fail("addr(%s): no such field", n)
	}
	c.fail("addr(%s): unsupported expression", n)
	return Term{}
}

func subRef(ref string, i int) string {
	return fmt.Sprintf("(- (+ (* 1024 %s) %d))", ref, i+1)
}

// pointeeLocs: all (region, ref) locations making up the object of type t at ref.
func (c *FnCtx) pointeeLocs(t types.Type, ref string) []ModLoc {
	switch u := t.Underlying().(type) {
	case *types.Struct:
		if inner, ok := isWrapper(t); ok {
			return c.pointeeLocs(inner, ref)
		}
		var out []ModLoc
		for i := 0; i < u.NumFields(); i++ {
			ft := u.Field(i).Type()
			switch ft.Underlying().(type) {
			case *types.Struct, *types.Array:
				out = append(out, c.pointeeLocs(ft, subRef(ref, i))...)
			default:
				r, _ := c.fieldRegion(t, i)
				out = append(out, ModLoc{r, ref})
			}
		}
		return out
	case *types.Array:
		return []ModLoc{{c.elemRegion(u.Elem()), ref}}
	default:
		return []ModLoc{{c.cellRegion(t), ref}}
	}
}

var allocCache = map[*ssa.Function]map[string]*ssa.Alloc{}

// allocNamed: the unique Alloc instruction of fn that backs the Go variable called name.
func allocNamed(fn *ssa.Function, name string) *ssa.Alloc {
	m, ok := allocCache[fn]
	if !ok {
		m = map[string]*ssa.Alloc{}
		dup := map[string]bool{}
		for _, b := range fn.Blocks {
			for _, ins := range b.Instrs {
				if a, ok := ins.(*ssa.Alloc); ok && a.Comment != "" {
					if _, seen := m[a.Comment]; seen {
						dup[a.Comment] = true
					}
					m[a.Comment] = a
				}
			}
		}
		for k := range dup {
			delete(m, k)
		}
		allocCache[fn] = m
	}
	return m[name]
}

// intFacts: a heap value of a Go integer type lies in that type's range (type invariant of the heap).
func (e *Env) intFacts(t Term) {
	if t.Sort != SInt || t.T == nil || strings.Contains(t.S, "q_") {
		return
	}
	if _, ok := t.T.Underlying().(*types.Basic); !ok {
		return
	}
	lo, hi, ok := intRange(t.T)
	if !ok {
		return
	}
	key := "if:" + t.S
	if e.c.declared[key] {
		return
	}
	e.c.declared[key] = true
	e.c.facts = append(e.c.facts, fmt.Sprintf("(and (<= %s %s) (<= %s %s))", lo, t.S, t.S, hi))
}
