package main

// Calls: builtins, contracts, inlining, default havoc.

import (
	"fmt"
	"go/types"
	"sort"
	"strings"

	"golang.org/x/tools/go/ssa"
)

func (c *FnCtx) resultVal(st *State, sig *types.Signature, prefix string) interface{} {
	res := sig.Results()
	mk := func(t types.Type) Term {
		srt := c.sortOf(t)
		tm := Term{S: c.fresh(prefix, srt), Sort: srt, T: t}
		c.typeFacts(st, tm, t)
		return tm
	}
	switch res.Len() {
	case 0:
		return nil
	case 1:
		return mk(res.At(0).Type())
	}
	var tu Tuple
	for i := 0; i < res.Len(); i++ {
		tu = append(tu, mk(res.At(i).Type()))
	}
	return tu
}

func flatten(v interface{}) []Term {
	switch x := v.(type) {
	case nil:
		return nil
	case Term:
		return []Term{x}
	case Tuple:
		var out []Term
		for _, e := range x {
			out = append(out, e.(Term))
		}
		return out
	}
	return nil
}

func (c *FnCtx) call(fr *frame, st *State, guard string, site ssa.Instruction, cc *ssa.CallCommon) interface{} {
	res := c.call0(fr, st, guard, site, cc)
	if fr.top && fr.con != nil && (len(fr.con.AfterCall) > 0 || len(fr.con.Capture) > 0) {
		name := ""
		if cc.IsInvoke() {
			if n, ok := cc.Value.Type().(*types.Named); ok {
				name = n.Obj().Name() + "." + cc.Method.Name()
			}
		} else if sc := cc.StaticCallee(); sc != nil {
			k := funcKey(sc)
			name = k[strings.LastIndex(k, "::")+2:]
		}
		if inf := fr.con.AfterCall[name]; inf != nil {
			c.interfere(fr, st, inf)
		}
		for _, cs := range fr.con.Capture[name] {
			if rs := flatten(res); cs.K < len(rs) {
				st.names[cs.Name] = rs[cs.K]
				if fr.con.captured == nil {
					fr.con.captured = map[string]bool{}
				}
				fr.con.captured[cs.Name] = true
			}
		}
	}
	return res
}

// interfere: havoc the listed locations and assume the rely relation (old() = state before the havoc).
func (c *FnCtx) interfere(fr *frame, st *State, inf *Interference) {
	pre := st.clone()
	envPre := c.newEnv(fr, pre)
	byRegion := map[string][]string{}
	whole := map[string]bool{}
	for _, h := range inf.Havoc {
		for _, l := range c.modLocs(envPre, h) {
			if l.Ref == "" {
				whole[l.Region] = true
			} else {
				byRegion[l.Region] = append(byRegion[l.Region], l.Ref)
			}
		}
	}
	var rs []string
	for r := range byRegion {
		rs = append(rs, r)
	}
	for r := range whole {
		if _, ok := byRegion[r]; !ok {
			rs = append(rs, r)
		}
	}
	sort.Strings(rs)
	for _, r := range rs {
		oldv := c.get(st, r)
		c.havoc(st, r)
		if whole[r] || !strings.HasPrefix(c.regSort[r], "(Array Int ") {
			continue
		}
		var ne []string
		for _, ref := range byRegion[r] {
			ne = append(ne, fmt.Sprintf("(not (= q_r %s))", ref))
		}
		nv := c.get(st, r)
		c.assume("", fmt.Sprintf("(forall ((q_r Int)) (! (=> (and %s) (= (select %s q_r) (select %s q_r))) :pattern ((select %s q_r))))", strings.Join(ne, " "), nv, oldv, nv))
	}
	env := c.newEnv(fr, st)
	env.old = pre
	env.oldAlloc = pre.alloc
	c.assume(st.g, c.evalBool(env, inf.Rely.E))
}

func (c *FnCtx) call0(fr *frame, st *State, guard string, site ssa.Instruction, cc *ssa.CallCommon) interface{} {
	// builtin
	if b, ok := cc.Value.(*ssa.Builtin); ok {
		return c.builtin(fr, st, st.g, site, b, cc)
	}
	if cc.IsInvoke() {
		return c.invoke(fr, st, site, cc)
	}
	callee := cc.StaticCallee()
	if callee == nil {
		if cv, ok := c.valIn(fr, cc.Value).(*closureVal); ok {
			return c.inlineCall(fr, st, cv.fn, c.argVals(fr, cc), cv, site)
		}
		if c.prof.DefaultHavoc {
			return c.havocCall(fr, st, cc.Signature(), "dyncall")
		}
		c.fail("dynamic call %s in %s", cc, funcKey(fr.fn))
	}
	if mc, ok := cc.Value.(*ssa.MakeClosure); ok {
		cv := c.valIn(fr, mc).(*closureVal)
		return c.inlineCall(fr, st, cv.fn, c.argVals(fr, cc), cv, site)
	}
	name := callee.String()
	key := funcKey(callee)
	atDone := false
	if fr.top && fr.con != nil && len(fr.con.AtCall) > 0 {
		// caller-side obligations also apply to calls the engine models itself (standard library)
		c.atCall(fr, st, key[strings.LastIndex(key, "::")+2:], c.argVals(fr, cc)...)
		atDone = true
	}
	if r, handled := c.stdModel(fr, st, site, name, cc); handled {
		return r
	}
	if !atDone {
		c.atCall(fr, st, key[strings.LastIndex(key, "::")+2:], c.argVals(fr, cc)...)
	}
	if con := c.eng.contractFor(key, c.prof); con != nil && !con.Inline {
		return c.applyContract(fr, st, callee.Signature, con, paramNames(callee), c.argVals(fr, cc), key, callee.Pkg.Pkg)
	}
	if con := c.eng.contractFor(key, c.prof); (con != nil && con.Inline) || c.prof.inlineOK(key) {
		if callee.Blocks == nil {
			c.fail("cannot inline %s: no body", key)
		}
		return c.inlineCall(fr, st, callee, c.argVals(fr, cc), nil, site)
	}
	if c.prof.noop(key) || c.prof.noop(name) {
		return c.noopCall(st, callee.Signature)
	}
	if c.prof.DefaultHavoc {
		return c.havocCall(fr, st, callee.Signature, sanitize(callee.Name()))
	}
	c.fail("call to %s without contract (profile %s) in %s", key, c.prof.Name, funcKey(fr.fn))
	return nil
}

func paramNames(f *ssa.Function) []string {
	var out []string
	for _, p := range f.Params {
		out = append(out, p.Name())
	}
	return out
}

func (c *FnCtx) argVals(fr *frame, cc *ssa.CallCommon) []interface{} {
	var out []interface{}
	for _, a := range cc.Args {
		out = append(out, c.valIn(fr, a))
	}
	return out
}

func (c *FnCtx) noopCall(st *State, sig *types.Signature) interface{} {
	return c.resultVal(st, sig, "r")
}

// havocCall: callee is ghost-neutral: untracked heap is havocked, result fresh.
func (c *FnCtx) havocCall(fr *frame, st *State, sig *types.Signature, name string) interface{} {
	var ks []string
	for k := range c.regSort {
		if !c.prof.isTracked(k) && !strings.HasPrefix(k, "L_") {
			ks = append(ks, k)
		}
	}
	sort.Strings(ks)
	for _, k := range ks {
		c.havoc(st, k)
	}
	na := c.fresh("alloc", SInt)
	c.assume("", fmt.Sprintf("(>= %s %s)", na, st.alloc))
	st.alloc = na
	return c.resultVal(st, sig, "r_"+name)
}

func (c *FnCtx) invoke(fr *frame, st *State, site ssa.Instruction, cc *ssa.CallCommon) interface{} {
	recvT := cc.Value.Type()
	iname := ""
	ipkg := ""
	if n, ok := recvT.(*types.Named); ok {
		iname = n.Obj().Name()
		if n.Obj().Pkg() != nil {
			ipkg = n.Obj().Pkg().Path()
		}
	}
	key := ipkg + "::" + iname + "." + cc.Method.Name()
	if iname == "error" && cc.Method.Name() == "Error" {
		return c.resultVal(st, cc.Signature(), "errstr")
	}
	sig := cc.Method.Type().(*types.Signature)
	c.atCall(fr, st, iname+"."+cc.Method.Name(), append([]interface{}{c.valIn(fr, cc.Value)}, c.argVals(fr, cc)...)...)
	if con := c.eng.contractFor(key, c.prof); con != nil {
		names := []string{"self"}
		for i := 0; i < sig.Params().Len(); i++ {
			n := sig.Params().At(i).Name()
			if n == "" || n == "_" {
				n = fmt.Sprintf("arg%d", i)
			}
			names = append(names, n)
		}
		args := append([]interface{}{c.valIn(fr, cc.Value)}, c.argVals(fr, cc)...)
		var pk *types.Package
		if n, ok := recvT.(*types.Named); ok {
			pk = n.Obj().Pkg()
		}
		return c.applyContract(fr, st, sig, con, names, args, key, pk)
	}
	if c.prof.noop(key) {
		return c.noopCall(st, sig)
	}
	if c.prof.DefaultHavoc {
		return c.havocCall(fr, st, sig, sanitize(cc.Method.Name()))
	}
	if !strings.HasPrefix(ipkg, libPrefix) {
		// method of a standard-library interface (os.FileInfo, io.Reader, ...): opaque, no effect on the
		// repository's heap (listed in the trusted base)
		return c.noopCall(st, sig)
	}
	c.fail("interface call %s without contract in %s", key, funcKey(fr.fn))
	return nil
}

// applyContract: assert pre, havoc modifies, assume post.
func (c *FnCtx) applyContract(fr *frame, st *State, sig *types.Signature, con *Contract, pnames []string, args []interface{}, key string, pkg *types.Package) interface{} {
	guard := st.g
	pre := st.clone()
	params := map[string]Term{}
	for i, n := range pnames {
		if i < len(args) {
			if t, ok := args[i].(Term); ok {
				params[n] = t
			}
		}
	}
	sub := &frame{fn: fr.fn, con: con, params: params, lets: map[string]Term{}, oldState: pre}
	env := &Env{c: c, fr: sub, pkg: pkg, st: pre, old: pre, names: map[string]Term{}, params: params, lets: sub.lets, bind: map[string]Term{}, oldAlloc: pre.alloc, callee: true}
	for _, l := range con.Lets {
		sub.lets[l.Label] = env.eval(l.E, "")
	}
	short := key[strings.LastIndex(key, "::")+2:]
	// vacuity guard for the assumed postcondition: the path must stay feasible across the call
	// (a contradictory contract or model would make everything after the call provable)
	var preCover *Obl
	if !c.nocover && len(con.Ensures)+len(con.AssumeEnsures) > 0 {
		preCover = c.oblige("cover", fmt.Sprintf("cover#before@%s@%s", short, shortPos(c.curPos)), guard, "false", "call reachable")
		preCover.Expect = "sat"
		c.obls = c.obls[:len(c.obls)-1] // solved on demand only (when the post-call cover is refuted)
	}
	for i, r := range con.Requires {
		c.oblige("requires", fmt.Sprintf("requires@%s#%s@%s", short, clauseName(r, i), shortPos(c.curPos)), guard, c.evalBool(env, r.E), r.Src)
	}
	// modifies
	if con.ModAll {
		keep := map[string]bool{}
		for _, pn := range con.Preserves {
			for _, l := range c.modLocs(env, pn) {
				keep[l.Region] = true
			}
		}
		var ks []string
		for k := range c.regSort {
			if keep[k] || strings.HasPrefix(k, "L_") {
				continue
			}
			// "modifies *": everything the contract does not preserve, ghosts included; only the
			// profile's tracked heap regions (immutable-by-assumption fields) survive
			if strings.HasPrefix(k, "G_") || !c.prof.isTracked(k) || c.prof.DefaultHavoc == false {
				ks = append(ks, k)
			}
		}
		sort.Strings(ks)
		for _, k := range ks {
			c.havoc(st, k)
		}
	}
	byRegion := map[string][]string{}
	whole := map[string]bool{}
	for _, m := range con.Modifies {
		for _, l := range c.modLocs(env, m) {
			if l.Ref == "" {
				whole[l.Region] = true
			} else {
				byRegion[l.Region] = append(byRegion[l.Region], l.Ref)
			}
		}
	}
	var rs []string
	for r := range byRegion {
		rs = append(rs, r)
	}
	for r := range whole {
		if _, ok := byRegion[r]; !ok {
			rs = append(rs, r)
		}
	}
	sort.Strings(rs)
	for _, r := range rs {
		oldv := c.get(st, r)
		c.havoc(st, r)
		if whole[r] {
			continue
		}
		var ne []string
		for _, ref := range byRegion[r] {
			ne = append(ne, fmt.Sprintf("(not (= q_r %s))", ref))
		}
		nv := c.get(st, r)
		c.assume("", fmt.Sprintf("(forall ((q_r Int)) (! (=> (and %s (< q_r %s)) (= (select %s q_r) (select %s q_r))) :pattern ((select %s q_r))))", strings.Join(ne, " "), pre.alloc, nv, oldv, nv))
	}
	na := c.fresh("alloc", SInt)
	c.assume("", fmt.Sprintf("(>= %s %s)", na, st.alloc))
	st.alloc = na
	res := c.resultVal(st, sig, "r_"+sanitize(short))
	env2 := *env
	env2.st = st
	env2.results = flatten(res)
	for i := 0; i < sig.Results().Len(); i++ {
		env2.resNames = append(env2.resNames, sig.Results().At(i).Name())
	}
	for _, e := range con.Ensures {
		c.assume(guard, c.evalBool(&env2, e.E))
	}
	for _, e := range con.AssumeEnsures {
		c.assume(guard, c.evalBool(&env2, e.E))
	}
	if preCover != nil {
		o := c.oblige("cover", fmt.Sprintf("cover#after@%s@%s", short, shortPos(c.curPos)), guard, "false", "path feasible after the call (postcondition not contradictory)")
		o.Expect = "sat"
		o.Pre = preCover
	}
	return res
}

// mergeStates joins several states under their edge conditions.
func (c *FnCtx) mergeStates(sts []*State, conds []string) *State {
	st := sts[0].clone()
	if len(sts) == 1 {
		return st
	}
	keys := map[string]bool{}
	for _, s := range sts {
		for k := range s.ver {
			keys[k] = true
		}
	}
	var ks []string
	for k := range keys {
		ks = append(ks, k)
	}
	sort.Strings(ks)
	for _, k := range ks {
		same := true
		v0 := c.get(sts[0], k)
		for _, s := range sts[1:] {
			if c.get(s, k) != v0 {
				same = false
			}
		}
		if same {
			st.ver[k] = v0
			continue
		}
		nv := c.fresh(k, c.regSort[k])
		for i, s := range sts {
			c.assume(conds[i], fmt.Sprintf("(= %s %s)", nv, c.get(s, k)))
		}
		st.ver[k] = nv
	}
	sameAlloc := true
	for _, s := range sts[1:] {
		if s.alloc != st.alloc {
			sameAlloc = false
		}
	}
	if !sameAlloc {
		na := c.fresh("alloc", SInt)
		for i, s := range sts {
			c.assume(conds[i], fmt.Sprintf("(= %s %s)", na, s.alloc))
		}
		st.alloc = na
	}
	for k, v := range st.names {
		for _, s := range sts[1:] {
			if w, ok := s.names[k]; !ok || w.S != v.S {
				delete(st.names, k)
				break
			}
		}
	}
	return st
}

func (c *FnCtx) inlineCall(fr *frame, st *State, callee *ssa.Function, args []interface{}, cv *closureVal, site ssa.Instruction) interface{} {
	if c.inlineDepth > 6 {
		c.fail("inline depth exceeded at %s", funcKey(callee))
	}
	c.inlineDepth++
	defer func() { c.inlineDepth-- }()
	savedPos := c.curPos
	sub := &frame{fn: callee, con: c.eng.contractFor(funcKey(callee), c.prof), params: map[string]Term{}, lets: map[string]Term{}, oldState: st.clone(), modWhole: fr.modWhole, modRefs: fr.modRefs, modKnown: fr.modKnown, mayPanic: fr.mayPanic || (fr.con != nil && fr.con.MayPanic)}
	for i, p := range callee.Params {
		c.vals[p] = args[i]
		if t, ok := args[i].(Term); ok {
			sub.params[p.Name()] = t
		}
	}
	if cv != nil {
		sub.closure = map[ssa.Value]interface{}{}
		for i, fv := range callee.FreeVars {
			sub.closure[fv] = cv.binds[i]
		}
	}
	entry := st.clone()
	entry.defers = nil
	entry.names = map[string]Term{}
	for k, v := range sub.params {
		entry.names[k] = v
	}
	c.execFunction(sub, entry, st.g)
	c.curPos = savedPos
	if len(sub.retGuards) == 0 {
		// callee never returns (always panics)
		st.g = "false"
		return c.resultVal(st, callee.Signature, "never")
	}
	merged := c.mergeStates(sub.retStates, sub.retGuards)
	st.ver = merged.ver
	st.alloc = merged.alloc
	if len(sub.retGuards) == 1 {
		st.g = sub.retGuards[0]
	} else {
		st.g = c.define("g", SBool, "(or "+strings.Join(sub.retGuards, " ")+")")
	}
	nres := callee.Signature.Results().Len()
	var out Tuple
	for k := 0; k < nres; k++ {
		same := true
		for _, rv := range sub.retVals[1:] {
			if rv[k].S != sub.retVals[0][k].S {
				same = false
			}
		}
		if same {
			out = append(out, sub.retVals[0][k])
			continue
		}
		t0 := sub.retVals[0][k]
		n := c.fresh("ret", t0.Sort)
		for i, rv := range sub.retVals {
			c.assume(sub.retGuards[i], fmt.Sprintf("(= %s %s)", n, rv[k].S))
		}
		out = append(out, Term{S: n, Sort: t0.Sort, T: callee.Signature.Results().At(k).Type()})
	}
	switch nres {
	case 0:
		return nil
	case 1:
		return out[0]
	}
	return out
}

// callWriteSet: regions a call may modify (for loop havoc); all=true if unknown.
func (c *FnCtx) callWriteSet(cc *ssa.CallCommon) (regs []string, all bool) {
	if b, ok := cc.Value.(*ssa.Builtin); ok {
		switch b.Name() {
		case "append", "copy":
			if s, ok := cc.Args[0].Type().Underlying().(*types.Slice); ok {
				return []string{c.elemRegion(s.Elem())}, false
			}
		case "delete":
			d, v := c.mapRegions(cc.Args[0].Type().Underlying().(*types.Map))
			return []string{d, v}, false
		}
		return nil, false
	}
	if cc.IsInvoke() {
		return nil, true
	}
	callee := cc.StaticCallee()
	if callee == nil {
		return nil, true
	}
	name := callee.String()
	if rs, ok := stdWriteSet(c, name, cc); ok {
		return rs, false
	}
	key := funcKey(callee)
	con := c.eng.contractFor(key, c.prof)
	if con != nil && !con.Inline {
		if con.ModAll {
			// everything untracked, plus every ghost the contract does not explicitly preserve
			keep := map[string]bool{}
			if len(con.Preserves) > 0 {
				dummy := &frame{fn: callee, con: con, params: map[string]Term{}, lets: map[string]Term{}}
				for _, p := range callee.Params {
					dummy.params[p.Name()] = Term{S: "0", Sort: c.sortOf(p.Type()), T: p.Type()}
				}
				st := &State{ver: map[string]string{}, alloc: "0", names: map[string]Term{}}
				env := &Env{c: c, fr: dummy, pkg: callee.Pkg.Pkg, st: st, old: st, names: st.names, params: dummy.params, lets: dummy.lets, bind: map[string]Term{}}
				for _, pn := range con.Preserves {
					func() {
						defer func() { recover() }()
						for _, l := range c.modLocs(env, pn) {
							keep[l.Region] = true
						}
					}()
				}
			}
			var gs []string
			for g := range c.eng.ghosts {
				if r, ok := c.ghostRegion(g); ok && !keep[r] {
					gs = append(gs, r)
				}
			}
			return gs, true
		}
		// regions named by modifies (evaluated syntactically with dummy env)
		dummy := &frame{fn: callee, con: con, params: map[string]Term{}, lets: map[string]Term{}}
		for _, p := range callee.Params {
			dummy.params[p.Name()] = Term{S: "0", Sort: c.sortOf(p.Type()), T: p.Type()}
		}
		st := &State{ver: map[string]string{}, alloc: "0", names: map[string]Term{}}
		env := &Env{c: c, fr: dummy, pkg: callee.Pkg.Pkg, st: st, old: st, names: st.names, params: dummy.params, lets: dummy.lets, bind: map[string]Term{}}
		for _, l := range con.Lets {
			func() {
				defer func() { recover() }()
				dummy.lets[l.Label] = env.eval(l.E, "")
			}()
		}
		for _, m := range con.Modifies {
			regs = append(regs, c.modRegions(env, m)...)
		}
		return regs, false
	}
	if (con != nil && con.Inline) || c.prof.inlineOK(key) {
		if callee.Blocks == nil {
			return nil, true
		}
		seen := map[string]bool{}
		for _, b := range callee.Blocks {
			for _, ins := range b.Instrs {
				switch x := ins.(type) {
				case *ssa.Store:
					for _, r := range c.storeRegions(x.Addr) {
						seen[r] = true
					}
				case *ssa.MapUpdate:
					d, v := c.mapRegions(x.Map.Type().Underlying().(*types.Map))
					seen[d], seen[v] = true, true
				case ssa.CallInstruction:
					rs, a := c.callWriteSet(x.Common())
					if a {
						all = true
					}
					for _, r := range rs {
						seen[r] = true
					}
				}
			}
		}
		for r := range seen {
			regs = append(regs, r)
		}
		return regs, all
	}
	if c.prof.noop(key) || c.prof.noop(name) {
		return nil, false
	}
	return nil, true
}

// atCall: obligations the caller's contract attaches to every call of the named callee
// (evaluated in the caller's scope and state, before the call).
func (c *FnCtx) atCall(fr *frame, st *State, callee string, args ...interface{}) {
	if !fr.top || fr.con == nil || fr.con.AtCall == nil {
		return
	}
	cls := fr.con.AtCall[callee]
	// at_call Callee#k: only the k-th call site of Callee in the function (in source order)
	if ord := c.callSiteOrdinal(fr.fn, callee); ord > 0 {
		key := fmt.Sprintf("%s#%d", callee, ord)
		if more := fr.con.AtCall[key]; len(more) > 0 {
			cls = append(append([]Clause{}, cls...), more...)
			fr.atCallSeen[key]++
		}
	}
	if len(cls) == 0 {
		return
	}
	fr.atCallSeen[callee]++
	env := c.newEnv(fr, st)
	for i, a := range args {
		if t, ok := a.(Term); ok {
			env.bind[fmt.Sprintf("arg%d", i)] = t
		}
	}
	for i, cl := range cls {
		goal := c.evalBool(env, cl.E)
		c.oblige("at-call", fmt.Sprintf("at-call@%s#%s@%s", callee, clauseName(cl, i), shortPos(c.curPos)), st.g, goal, cl.Src)
		// a proved cut point: the fact may be used from here on
		c.assume(st.g, goal)
	}
}

// callSiteOrdinal: 1-based position (source order) of the call site being executed among all static call sites of
// the callee (by short name) in fn; 0 if unknown.
func (c *FnCtx) callSiteOrdinal(fn *ssa.Function, callee string) int {
	type site struct {
		pos  string
		line int
		col  int
	}
	var sites []site
	seen := map[string]bool{}
	for _, b := range fn.Blocks {
		for _, ins := range b.Instrs {
			var cc *ssa.CallCommon
			switch x := ins.(type) {
			case *ssa.Call:
				cc = x.Common()
			case *ssa.Defer:
				cc = x.Common()
			case *ssa.Go:
				cc = x.Common()
			}
			if cc == nil {
				continue
			}
			name := ""
			if cc.IsInvoke() {
				if n, ok := cc.Value.Type().(*types.Named); ok {
					name = n.Obj().Name() + "." + cc.Method.Name()
				}
			} else if sc := cc.StaticCallee(); sc != nil {
				k := funcKey(sc)
				name = k[strings.LastIndex(k, "::")+2:]
			}
			if name != callee {
				continue
			}
			p := c.eng.prog.Fset.Position(ins.Pos())
			if seen[p.String()] {
				continue
			}
			seen[p.String()] = true
			sites = append(sites, site{p.String(), p.Line, p.Column})
		}
	}
	sort.Slice(sites, func(i, j int) bool {
		if sites[i].line != sites[j].line {
			return sites[i].line < sites[j].line
		}
		return sites[i].col < sites[j].col
	})
	for i, s := range sites {
		if s.pos == c.curPos {
			return i + 1
		}
	}
	return 0
}
