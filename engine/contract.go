package main

// Contract files: comment-only Go files named contracts_verif.go (build tag verif)
// inside the repository packages. Format (every line starts with "//@"):
//
//   //@ func Recv.Method            (or: func Name, or: iface Iface.Method)
//   //@   profile p1 p2
//   //@   requires [label:] E
//   //@   ensures  [label:] E
//   //@   let name = E              (evaluated in the pre-state)
//   //@   modifies loc, loc | modifies *          (loc: *p, p.f, s[], G.ghost, m[])
//   //@   loop k invariant [label:] E | loop k decreases E | loop k body_ensures E
//   //@   inline | trusted | pure | maypanic | nopanic
//   //@   | continuation of the previous directive

import (
	"fmt"
	"os"
	"regexp"
	"strconv"
	"strings"
)

type Clause struct {
	Label string
	E     *Node
	Src   string
	Line  int
}

type LoopSpec struct {
	Inv     []Clause
	Entry   []Clause // obligations at loop entry only (not assumed, not invariants)
	Dec     *Node
	BodyEns []Clause
	Mods    []*Node // extra havoc
	Lets    []Clause // evaluated at loop entry (before havoc)
}

type Contract struct {
	Pkg      string // package path
	Func     string // "Recv.Method" or "Func"
	IsIface  bool
	Profiles []string
	Requires []Clause
	Ensures  []Clause
	AssumeEnsures []Clause // ghost effects declared by fiat: assumed at call sites, not checked against the body
	Lets     []Clause // Label = name
	Modifies []*Node
	Preserves []*Node
	ModAll   bool
	Loops    map[int]*LoopSpec
	Inline   bool
	Trusted  bool
	Pure     bool
	MayPanic bool
	NoPanicIf *Clause // nopanic_if E: although the function may panic in general, it must not when E holds at entry
	Ghost    bool // ghost-neutral marker
	File     string
	Line     int
	Uses     []Clause // "assert"/"use" hints (checked then assumed) at entry
	NoAuto   bool
	AfterCall map[string]*Interference // callee short name -> interference applied after each call (rely)
	AtCall   map[string][]Clause // callee short name -> obligations evaluated in the caller's scope at each call
	Capture  map[string][]CaptureSpec // callee short name -> names bound to results of the latest call of that callee
	captured map[string]bool
	ModNone  bool
	autoApplied bool
}

// CaptureSpec: `capture NAME = Callee k` binds NAME (usable like a local in later clauses) to result k of the
// most recent call of Callee in the function under contract.
type CaptureSpec struct {
	Name string
	K    int
}

func (c *Contract) HasProfile(p string) bool {
	for _, x := range c.Profiles {
		if x == p || x == "*" {
			return true
		}
	}
	return false
}

var labelRe = regexp.MustCompile(`^([A-Za-z_][A-Za-z0-9_]*):\s+(.*)$`)

func splitLabel(s string) (string, string) {
	if m := labelRe.FindStringSubmatch(s); m != nil {
		return m[1], m[2]
	}
	return "", s
}

// Interference: after the named call other goroutines may have run: the listed locations are
// havocked and the rely relation (old() = the state right after the call) is assumed.
type Interference struct {
	Havoc []*Node
	Rely  Clause
}

type macro struct {
	params []string
	body   string
}

var macros = map[string]macro{}
var identRe = regexp.MustCompile(`[A-Za-z_][A-Za-z0-9_]*`)

// expandMacros textually expands NAME(args) for every macro defined with
//   //@ macro NAME(p1, p2) = EXPR
// (macros are global across contract files; arguments are substituted by identifier).
func expandMacros(src string) string {
	for iter := 0; iter < 20; iter++ {
		changed := false
		for name, m := range macros {
			for {
				i := findCall(src, name)
				if i < 0 {
					break
				}
				// parse arguments
				j := i + len(name) + 1
				depth := 1
				k := j
				for k < len(src) && depth > 0 {
					switch src[k] {
					case '(', '[':
						depth++
					case ')', ']':
						depth--
					}
					k++
				}
				args := splitTop(src[j : k-1])
				if len(args) != len(m.params) {
					break
				}
				sub := map[string]string{}
				for pi, pn := range m.params {
					sub[pn] = "(" + args[pi] + ")"
				}
				body := identRe.ReplaceAllStringFunc(m.body, func(id string) string {
					if v, ok := sub[id]; ok {
						return v
					}
					return id
				})
				src = src[:i] + "(" + body + ")" + src[k:]
				changed = true
			}
		}
		if !changed {
			break
		}
	}
	return src
}

func findCall(src, name string) int {
	from := 0
	for {
		i := strings.Index(src[from:], name+"(")
		if i < 0 {
			return -1
		}
		i += from
		if i == 0 || !(src[i-1] == '_' || src[i-1] == '.' || (src[i-1] >= 'a' && src[i-1] <= 'z') || (src[i-1] >= 'A' && src[i-1] <= 'Z') || (src[i-1] >= '0' && src[i-1] <= '9')) {
			return i
		}
		from = i + 1
	}
}

func ParseContractFile(path, pkgPath string) ([]*Contract, error) {
	data, err := os.ReadFile(path)
	if err != nil {
		return nil, err
	}
	// first pass: macros (with continuation lines)
	{
		var cur string
		flushM := func() {
			if cur == "" {
				return
			}
			t := strings.TrimSpace(strings.TrimPrefix(cur, "macro "))
			if k := strings.Index(t, "="); k > 0 {
				head := strings.TrimSpace(t[:k])
				body := strings.TrimSpace(t[k+1:])
				if a := strings.Index(head, "("); a > 0 && strings.HasSuffix(head, ")") {
					var ps []string
					for _, x := range strings.Split(head[a+1:len(head)-1], ",") {
						ps = append(ps, strings.TrimSpace(x))
					}
					macros[head[:a]] = macro{ps, body}
				}
			}
			cur = ""
		}
		for _, line := range strings.Split(string(data), "\n") {
			t := strings.TrimSpace(line)
			if !strings.HasPrefix(t, "//@") {
				continue
			}
			t = strings.TrimSpace(strings.TrimPrefix(t, "//@"))
			if strings.HasPrefix(t, "macro ") {
				flushM()
				cur = t
			} else if strings.HasPrefix(t, "|") && cur != "" {
				cur += " " + strings.TrimSpace(t[1:])
			} else {
				flushM()
			}
		}
		flushM()
	}
	var out []*Contract
	var cur *Contract
	type dir struct {
		text string
		line int
	}
	var dirs []dir
	inMacro := false
	flush := func() error {
		if cur == nil {
			return nil
		}
		for _, d := range dirs {
			if err := applyDirective(cur, d.text, d.line); err != nil {
				return fmt.Errorf("%s:%d: %v", path, d.line, err)
			}
		}
		dirs = nil
		out = append(out, cur)
		cur = nil
		return nil
	}
	for i, line := range strings.Split(string(data), "\n") {
		t := strings.TrimSpace(line)
		if !strings.HasPrefix(t, "//@") {
			continue
		}
		t = strings.TrimSpace(strings.TrimPrefix(t, "//@"))
		if t == "" {
			continue
		}
		// strip trailing comment " // ..."
		if k := strings.Index(t, " // "); k >= 0 {
			t = strings.TrimSpace(t[:k])
		}
		switch {
		case strings.HasPrefix(t, "macro "):
			if err := flush(); err != nil {
				return nil, err
			}
			inMacro = true
		case strings.HasPrefix(t, "|") && inMacro:
			// continuation of a macro definition (handled in the first pass)
		case strings.HasPrefix(t, "func ") || strings.HasPrefix(t, "iface "):
			inMacro = false
			if err := flush(); err != nil {
				return nil, err
			}
			f := strings.Fields(t)
			cur = &Contract{Pkg: pkgPath, Func: f[1], IsIface: f[0] == "iface", Loops: map[int]*LoopSpec{}, File: path, Line: i + 1}
		case strings.HasPrefix(t, "|"):
			if len(dirs) == 0 {
				return nil, fmt.Errorf("%s:%d: continuation without directive", path, i+1)
			}
			dirs[len(dirs)-1].text += " " + strings.TrimSpace(t[1:])
		default:
			if cur == nil {
				return nil, fmt.Errorf("%s:%d: directive outside func block", path, i+1)
			}
			dirs = append(dirs, dir{t, i + 1})
		}
	}
	if err := flush(); err != nil {
		return nil, err
	}
	return out, nil
}

func applyDirective(c *Contract, t string, line int) error {
	f := strings.Fields(t)
	rest := strings.TrimSpace(strings.TrimPrefix(t, f[0]))
	mk := func(s string) (Clause, error) {
		lbl, e := splitLabel(s)
		e = expandMacros(e)
		n, err := ParseExpr(e)
		if err != nil {
			return Clause{}, err
		}
		return Clause{Label: lbl, E: n, Src: e, Line: line}, nil
	}
	switch f[0] {
	case "profile":
		c.Profiles = append(c.Profiles, f[1:]...)
	case "requires":
		cl, err := mk(rest)
		if err != nil {
			return err
		}
		c.Requires = append(c.Requires, cl)
	case "ensures":
		cl, err := mk(rest)
		if err != nil {
			return err
		}
		c.Ensures = append(c.Ensures, cl)
	case "at_call":
		// at_call <Callee> requires [label:] E
		if len(f) < 4 || f[2] != "requires" {
			return fmt.Errorf("at_call <Callee> requires E")
		}
		idx := strings.Index(t, " requires ") + len(" requires ")
		cl, err := mk(strings.TrimSpace(t[idx:]))
		if err != nil {
			return err
		}
		if c.AtCall == nil {
			c.AtCall = map[string][]Clause{}
		}
		c.AtCall[f[1]] = append(c.AtCall[f[1]], cl)
	case "capture":
		// capture NAME = Callee k
		if len(f) != 5 || f[2] != "=" {
			return fmt.Errorf("capture NAME = Callee k")
		}
		k, err := strconv.Atoi(f[4])
		if err != nil {
			return fmt.Errorf("capture NAME = Callee k: %v", err)
		}
		if c.Capture == nil {
			c.Capture = map[string][]CaptureSpec{}
		}
		c.Capture[f[3]] = append(c.Capture[f[3]], CaptureSpec{f[1], k})
	case "after_call":
		// after_call <Callee> havoc loc, loc assume E
		hi := strings.Index(t, " havoc ")
		ai := strings.Index(t, " assume ")
		if len(f) < 5 || hi < 0 || ai < hi {
			return fmt.Errorf("after_call <Callee> havoc locs assume E")
		}
		inf := &Interference{}
		for _, part := range splitTop(t[hi+len(" havoc ") : ai]) {
			n, err := ParseExpr(expandMacros(part))
			if err != nil {
				return err
			}
			inf.Havoc = append(inf.Havoc, n)
		}
		cl, err := mk(strings.TrimSpace(t[ai+len(" assume "):]))
		if err != nil {
			return err
		}
		inf.Rely = cl
		if c.AfterCall == nil {
			c.AfterCall = map[string]*Interference{}
		}
		c.AfterCall[f[1]] = inf
	case "assume_ensures":
		cl, err := mk(rest)
		if err != nil {
			return err
		}
		c.AssumeEnsures = append(c.AssumeEnsures, cl)
	case "use":
		cl, err := mk(rest)
		if err != nil {
			return err
		}
		c.Uses = append(c.Uses, cl)
	case "let":
		k := strings.Index(rest, "=")
		if k < 0 {
			return fmt.Errorf("let needs =")
		}
		n, err := ParseExpr(expandMacros(strings.TrimSpace(rest[k+1:])))
		if err != nil {
			return err
		}
		c.Lets = append(c.Lets, Clause{Label: strings.TrimSpace(rest[:k]), E: n, Src: rest, Line: line})
	case "modifies":
		if strings.TrimSpace(rest) == "*" {
			c.ModAll = true
			return nil
		}
		if strings.TrimSpace(rest) == "nothing" {
			c.ModNone = true
			return nil
		}
		for _, part := range splitTop(rest) {
			n, err := ParseExpr(part)
			if err != nil {
				return err
			}
			c.Modifies = append(c.Modifies, n)
		}
	case "preserves":
		for _, part := range splitTop(rest) {
			n, err := ParseExpr(part)
			if err != nil {
				return err
			}
			c.Preserves = append(c.Preserves, n)
		}
	case "loop":
		if len(f) < 3 {
			return fmt.Errorf("loop k kind E")
		}
		k, err := strconv.Atoi(strings.TrimSuffix(f[1], ":"))
		if err != nil {
			return err
		}
		ls := c.Loops[k]
		if ls == nil {
			ls = &LoopSpec{}
			c.Loops[k] = ls
		}
		idx := strings.Index(t, f[2]) + len(f[2])
		body := strings.TrimSpace(t[idx:])
		switch f[2] {
		case "invariant":
			cl, err := mk(body)
			if err != nil {
				return err
			}
			ls.Inv = append(ls.Inv, cl)
		case "body_ensures":
			cl, err := mk(body)
			if err != nil {
				return err
			}
			ls.BodyEns = append(ls.BodyEns, cl)
		case "entry":
			cl, err := mk(body)
			if err != nil {
				return err
			}
			ls.Entry = append(ls.Entry, cl)
		case "let":
			k := strings.Index(body, "=")
			if k < 0 {
				return fmt.Errorf("loop let needs =")
			}
			n, err := ParseExpr(strings.TrimSpace(body[k+1:]))
			if err != nil {
				return err
			}
			ls.Lets = append(ls.Lets, Clause{Label: strings.TrimSpace(body[:k]), E: n, Src: body, Line: line})
		case "decreases":
			n, err := ParseExpr(body)
			if err != nil {
				return err
			}
			ls.Dec = n
		case "modifies":
			for _, part := range splitTop(body) {
				n, err := ParseExpr(part)
				if err != nil {
					return err
				}
				ls.Mods = append(ls.Mods, n)
			}
		default:
			return fmt.Errorf("unknown loop directive %q", f[2])
		}
	case "inline":
		c.Inline = true
	case "trusted":
		c.Trusted = true
	case "pure":
		c.Pure = true
	case "maypanic":
		c.MayPanic = true
	case "nopanic":
		c.MayPanic = false
	case "nopanic_if":
		cl, err := mk(rest)
		if err != nil {
			return err
		}
		c.NoPanicIf = &cl
	case "noauto":
		c.NoAuto = true
	case "ghostneutral":
		c.Ghost = true
	default:
		return fmt.Errorf("unknown directive %q", f[0])
	}
	return nil
}

// splitTop splits on commas at parenthesis depth 0.
func splitTop(s string) []string {
	var out []string
	depth := 0
	last := 0
	for i, c := range s {
		switch c {
		case '(', '[':
			depth++
		case ')', ']':
			depth--
		case ',':
			if depth == 0 {
				out = append(out, strings.TrimSpace(s[last:i]))
				last = i + 1
			}
		}
	}
	if strings.TrimSpace(s[last:]) != "" {
		out = append(out, strings.TrimSpace(s[last:]))
	}
	return out
}
