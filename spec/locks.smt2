; profile locks (C04/C05): row locks held by the running transaction
; lks: shared or exclusive lock held on the row; lkx: exclusive lock held; refused: some lock request was refused
;@ghost lks (Array S_page.RID Bool)
;@ghost lkx (Array S_page.RID Bool)
;@ghost refused Bool
