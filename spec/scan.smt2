; profile scan (C06/C04 completeness of the sequential scan): lnv = the page examined last has a successor page;
; fnil = a page of the chain could not be fetched; gt = a candidate row was found and fetched (GetTuple was called)
;@ghost lnv Bool
;@ghost fnil Bool
;@ghost gt Bool
