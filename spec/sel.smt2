; profile sel (C06): which tuple the predicate was last evaluated on, and the outcome
;@ghost selT Int
;@ghost selOK Bool
; profile sel (C06): plans known to carry the residual predicate (keyed by the plan node reference)
;@ghost filt (Array Int Bool)
