; profile sel (C06): which tuple the predicate was last evaluated on, and the outcome
;@ghost selT Int
;@ghost selOK Bool
; profile sel (C06): plans known to carry the residual predicate (keyed by the plan node reference)
;@ghost filt (Array Int Bool)
; convtbl[s] = the key expressions in slice s were resolved against the table's own schema (no child plan given)
;@ghost convtbl (Array Int Bool)
; ridDone = the index iterator reported that it is exhausted on its last Next
;@ghost ridDone Bool
(declare-fun ptype (Int) Int)
(declare-fun pchild (Int Int) Int)
(declare-fun pcols (Int) Int)
;@ghost selsch (Array Int Int)
;@ghost ncmp Int
;@ghost keyeq Bool
