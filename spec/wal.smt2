; ---- C08: ghost state of the write-ahead discipline ----
;@ghost nextLSN Int
;@ghost flushedLSN Int
;@ghost plsn (Array Int Int)
;@ghost isTable (Array Int Bool)
;@ghost loggingOn Bool
; nextLSN    : every log sequence number handed out so far is < nextLSN
; flushedLSN : every record with LSN < flushedLSN is on stable storage
; plsn[p]    : value last stamped into the LSN field of the in-memory image of page id p
; isTable[p] : page id p was initialised as a user-table page (index and temporary pages reuse the LSN
;              field as an update counter; the property speaks about user-table pages only)
(define-fun walInv ((n Int) (f Int) (p (Array Int Int)) (t (Array Int Bool))) Bool
  (and (<= 0 f) (<= f n) (forall ((i Int)) (! (=> (select t i) (< (select p i) n)) :pattern ((select p i))))))
(define-fun allDurable ((f Int) (p (Array Int Int)) (t (Array Int Bool))) Bool
  (forall ((i Int)) (! (=> (select t i) (< (select p i) f)) :pattern ((select p i)))))
(define-fun tableSame ((p0 (Array Int Int)) (p1 (Array Int Int)) (t (Array Int Bool))) Bool
  (forall ((i Int)) (! (=> (select t i) (= (select p1 i) (select p0 i))) :pattern ((select p1 i)))))
