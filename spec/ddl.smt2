; profile ddl (C10): lkfound = the last Catalog.GetTableByName look-up found a table
;@ghost lkfound Bool
