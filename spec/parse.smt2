; profile parse (C11): nadd = number of elements added to a column set (ghost counter advanced after each Set.Add)
;@ghost nadd Int
