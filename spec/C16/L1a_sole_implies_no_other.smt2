; soleOrNone(q,t)  ==>  every shared holder of q is t
(declare-const SD (Array S_page.RID Bool)) (declare-const SV (Array S_page.RID Slice))
(declare-const A (Array Int (Array Int Int))) (declare-const q S_page.RID) (declare-const t Int) (declare-const u Int)
(assert (and (<= 0 (sl_off (select SV q))) (<= 0 (sl_len (select SV q)))))
(assert (soleOrNone SD SV A q t))
(assert (holdsS SD SV A q u))
(assert (not (= u t)))
