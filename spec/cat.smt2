; profile cat (C10): itEnd = the last End() query on a heap iterator answered "exhausted"
;@ghost itEnd Bool
