; forall non-NaN b. decode(encode(b)) is IEEE-equal to b; bit-identical except that -0.0 decodes to +0.0
(declare-const b (_ BitVec 32))
(assert (not (fp.isNaN (tofp32 b))))
(assert (not (and (fp.eq (tofp32 (decF (encF b))) (tofp32 b))
                  (=> (not (= b #x80000000)) (= (decF (encF b)) b))
                  (=> (= b #x80000000) (= (decF (encF b)) #x00000000)))))
