; byte-wise lexicographic order of two big-endian 4-byte words equals their unsigned order
(declare-const a (Array Int (_ BitVec 8))) (declare-const b (Array Int (_ BitVec 8)))
(define-fun lex4 ((a (Array Int (_ BitVec 8))) (b (Array Int (_ BitVec 8)))) Bool
  (or (bvult (select a 0) (select b 0))
      (and (= (select a 0) (select b 0))
           (or (bvult (select a 1) (select b 1))
               (and (= (select a 1) (select b 1))
                    (or (bvult (select a 2) (select b 2))
                        (and (= (select a 2) (select b 2)) (bvult (select a 3) (select b 3)))))))))
(assert (not (= (lex4 a b) (bvult (be32 a 0) (be32 b 0)))))
