; unpack(pack(rid)) = rid : 64-bit form for every 32-bit page id / slot; 32-bit form on the 16-bit domain
(declare-const p (_ BitVec 32)) (declare-const s (_ BitVec 32))
(assert (not (and (= (lo32 (packRID p s)) p) (= (hi32 (packRID p s)) s)
   (=> (and (bvult p #x00010000) (bvult s #x00010000))
       (and (= (zext16 (lo16 (cat16 (lo16 s) (lo16 p)))) p) (= (zext16 (hi16 (cat16 (lo16 s) (lo16 p)))) s))))))
