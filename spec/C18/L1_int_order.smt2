; forall x,y : int32.  x < y  <=>  encI(x) <u encI(y)    and    x = y <=> encI(x) = encI(y)
(declare-const x (_ BitVec 32)) (declare-const y (_ BitVec 32))
(assert (not (and (= (bvslt x y) (bvult (encI x) (encI y))) (= (= x y) (= (encI x) (encI y))))))
