; equal strings: s.0000.r1 and s.0000.r2 share the prefix of length l+4, so their order is decided by the
; row-id suffix alone; with L8 (and its mirror image) no entry of a different key lies between them.
(declare-const s (Array Int Int)) (declare-const l Int)
(declare-const r1 (Array Int Int)) (declare-const r2 (Array Int Int))
(declare-const e1 (Array Int Int)) (declare-const e2 (Array Int Int))
(assert (<= 0 l))
(assert (forall ((j Int)) (! (= (select e1 j) (ite (< j l) (select s j) (ite (< j (+ l 4)) 0 (select r1 (- j (+ l 4)))))) :pattern ((select e1 j)))))
(assert (forall ((j Int)) (! (= (select e2 j) (ite (< j l) (select s j) (ite (< j (+ l 4)) 0 (select r2 (- j (+ l 4)))))) :pattern ((select e2 j)))))
(declare-const j0 Int)
(assert (not (=> (and (<= 0 j0) (< j0 (+ l 4))) (= (select e1 j0) (select e2 j0)))))
