; forall x : int32. decI(encI(x)) = x
(declare-const x (_ BitVec 32))
(assert (not (= (decI (encI x)) x)))
