; keys of fixed length 4 followed by an 8-byte row id: if K1 <lex K2 then K1.R1 <lex K2.R2 for all R1,R2,
; and if K1 = K2 the order is decided by the suffix alone. Hence all entries of one key are contiguous.
(declare-const e1 (Array Int (_ BitVec 8))) (declare-const e2 (Array Int (_ BitVec 8)))
(define-fun lexlt ((a (Array Int (_ BitVec 8))) (b (Array Int (_ BitVec 8))) (n Int)) Bool
  (exists ((i Int)) (and (<= 0 i) (< i n) (bvult (select a i) (select b i))
     (forall ((j Int)) (=> (and (<= 0 j) (< j i)) (= (select a j) (select b j)))))))
(declare-const i0 Int)
(assert (and (<= 0 i0) (< i0 4) (bvult (select e1 i0) (select e2 i0))
   (forall ((j Int)) (=> (and (<= 0 j) (< j i0)) (= (select e1 j) (select e2 j))))))
(assert (not (and (lexlt e1 e2 12) (not (lexlt e2 e1 12)))))
