; profile dirty (C01/C03/C13 client rule): dirtied[p] = the page with id p was changed by the running heap operation
;@ghost dirtied (Array Int Bool)
; freshInit[p] = page p was initialised by this operation and its next-page link is still the invalid id
;@ghost freshInit (Array Int Bool)
; ondisk[p] = this operation forced page p to the data file
;@ghost ondisk (Array Int Bool)
