; ---- C14: ghost pin map: page id -> number of pins taken through the buffer pool and not yet released ----
;@ghost pins (Array Int Int)
(define-fun pinsNonNeg ((p (Array Int Int))) Bool (forall ((i Int)) (! (>= (select p i) 0) :pattern ((select p i)))))
