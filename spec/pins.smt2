; ---- C14: ghost pin map: page id -> number of pins taken through the buffer pool and not yet released ----
;@ghost pins (Array Int Int)
(define-fun pinsNonNeg ((p (Array Int Int))) Bool (forall ((i Int)) (! (>= (select p i) 0) :pattern ((select p i)))))
; hash index header page: number of block pages and the page id of block k (uninterpreted; defined by the stubs of
; HashTableHeaderPage.NumBlocks / GetBlockPageID)
(declare-fun hnb (Int) Int)
(declare-fun hblk (Int Int) Int)
(declare-fun pgid (Int) Int)
