; profile mmap (C17): an index wrapper as a multimap (key value, row id) -> present.
; ents is keyed by the key value of the tuple in the index's key column (keyof, uninterpreted) and by the row id
;@ghost ents (Array Int (Array S_page.RID Bool))
(declare-fun keyof (Int Int) Int)
; range bounds: which row id / which original value an encoded key was built from; which key value a byte string serialises
;@ghost encpid (Array Int Int)
;@ghost encslot (Array Int Int)
;@ghost encval (Array Int Int)
;@ghost serof (Array Int Int)
