; ---- C13: ghost state for the buffer pool proofs ----
;@ghost gdisk (Array Int (Array Int Int))
;@ghost repl (Array Int Bool)
;@ghost nextPID Int
; gdisk[p] : bytes of page id p in the database file
; repl[f]  : frame f is in the replacer (evictable)
; nextPID  : every page id handed out by the disk manager so far is < nextPID
(define-fun eq4096 ((a (Array Int Int)) (b (Array Int Int))) Bool
  (forall ((j Int)) (! (=> (and (<= 0 j) (< j 4096)) (= (select a j) (select b j))) :pattern ((select a j)) :pattern ((select b j)))))
; number of log records the buffer pool appended (page-id recycling must be logged)
;@ghost nlog Int
