; profile cmp: order on column values and the scan range derived from WHERE conjuncts
(define-fun fmax32 () FP32 ((_ to_fp 8 24) #x7f7fffff))   ; math.MaxFloat32
(define-fun fmin32 () FP32 ((_ to_fp 8 24) #xff7fffff))   ; -math.MaxFloat32
; the set of key values that satisfy the conjuncts consumed so far (arbitrary: uninterpreted)
(declare-fun Pset (Int) Bool)
; meaning of one comparison conjunct on an Integer column: op is expression.ComparisonType
; (0 =, 1 <>, 2 >, 3 >=, 4 <, 5 <=); constOnLeft is optimizer.Direction (DirLeft = true: "c op x")
(define-fun conjI ((op Int) (constOnLeft Bool) (c Int) (x Int)) Bool
  (ite (= op 0) (= x c)
  (ite (= op 1) (not (= x c))
  (ite (= op 2) (ite constOnLeft (> c x) (> x c))
  (ite (= op 3) (ite constOnLeft (>= c x) (>= x c))
  (ite (= op 4) (ite constOnLeft (< c x) (< x c))
  (ite (= op 5) (ite constOnLeft (<= c x) (<= x c))
  false)))))))
(define-fun cmpI ((op Int) (l Int) (r Int)) Bool (conjI op false r l))
; the value an expression node e denotes on tuple t under schema s (uninterpreted: fixed by the interface
; contract of Expression.Evaluate - evaluation is a function of (node, tuple, schema))
(declare-fun semT (Iface Int Int) Int)   ; type id
(declare-fun semN (Iface Int Int) Bool)  ; is NULL
(declare-fun semI (Iface Int Int) Int)   ; Integer payload
(declare-fun semB (Iface Int Int) Bool)  ; Boolean payload
