; profile stmt (C03/C12 mechanism): how many transactions the statement began, committed and aborted
;@ghost nbegin Int
;@ghost ncommit Int
;@ghost nabort Int
; nexec = number of plans the execution engine ran
;@ghost nexec Int
