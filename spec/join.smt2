; profile join (C11): on which pair of tuples the join predicate was evaluated last, and the outcome
;@ghost jvalL Int
;@ghost jvalR Int
;@ghost jvalOK Bool
; completeness of the index join: lexh = the left input reported done on its last Next; lnil = it returned no tuple
;@ghost lexh Bool
;@ghost lnil Bool
