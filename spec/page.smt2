; ---- C15: abstract view of a 4096-byte slotted table page (int mode: bytes are Ints in [0,255]) ----
(define-fun le32 ((d (Array Int Int)) (i Int)) Int
  (+ (select d i) (* 256 (select d (+ i 1))) (* 65536 (select d (+ i 2))) (* 16777216 (select d (+ i 3)))))
(define-fun bytesOK ((d (Array Int Int))) Bool
  (forall ((j Int)) (! (and (<= 0 (select d j)) (<= (select d j) 255)) :pattern ((select d j)))))
; header fields
(define-fun pgcnt ((d (Array Int Int))) Int (le32 d 20))
(define-fun pgfsp ((d (Array Int Int))) Int (le32 d 16))
; slot fields: uninterpreted with a defining axiom so that quantified invariants have clean triggers
(declare-fun soff ((Array Int Int) Int) Int)
(declare-fun ssz ((Array Int Int) Int) Int)
(assert (forall ((d (Array Int Int)) (k Int)) (! (= (soff d k) (le32 d (+ 24 (* 8 k)))) :pattern ((soff d k)))))
(assert (forall ((d (Array Int Int)) (k Int)) (! (= (ssz d k) (le32 d (+ 28 (* 8 k)))) :pattern ((ssz d k)))))
(define-fun slive ((d (Array Int Int)) (k Int)) Bool (not (= (ssz d k) 0)))
(define-fun smarked ((d (Array Int Int)) (k Int)) Bool (>= (ssz d k) 2147483648))
(define-fun slen ((d (Array Int Int)) (k Int)) Int (ite (>= (ssz d k) 2147483648) (- (ssz d k) 2147483648) (ssz d k)))
; well-formedness of a page image
(define-fun pgwf ((d (Array Int Int))) Bool
  (and (bytesOK d)
       (<= 0 (pgcnt d)) (<= (+ 24 (* 8 (pgcnt d))) (pgfsp d)) (<= (pgfsp d) 4096)
       ; live rows lie inside [fsp,4096) and are non-empty; empty slots are zeroed
       (forall ((k Int)) (! (=> (and (<= 0 k) (< k (pgcnt d)))
            (ite (slive d k)
                 (and (< 0 (slen d k)) (<= (pgfsp d) (soff d k)) (<= (+ (soff d k) (slen d k)) 4096))
                 (= (soff d k) 0)))
          :pattern ((ssz d k)) :pattern ((soff d k))))
       ; live rows are pairwise disjoint
       (forall ((k1 Int) (k2 Int)) (! (=> (and (<= 0 k1) (< k1 k2) (< k2 (pgcnt d)) (slive d k1) (slive d k2))
            (or (<= (+ (soff d k1) (slen d k1)) (soff d k2)) (<= (+ (soff d k2) (slen d k2)) (soff d k1))))
          :pattern ((soff d k1) (soff d k2))))))
; the bytes of row k of page d equal the n bytes of b starting at o (absolute positions: clean triggers)
(define-fun rowIs ((d (Array Int Int)) (k Int) (b (Array Int Int)) (o Int) (n Int)) Bool
  (and (= (slen d k) n)
       (forall ((p Int)) (! (=> (and (<= (soff d k) p) (< p (+ (soff d k) n))) (= (select d p) (select b (+ o (- p (soff d k)))))) :pattern ((select d p))))))
; row k reads the same in d1 and d2 (same liveness, mark, length and bytes; the offset may differ)
(define-fun sameRow ((d1 (Array Int Int)) (d2 (Array Int Int)) (k Int)) Bool
  (and (= (ssz d1 k) (ssz d2 k))
       (forall ((p Int)) (! (=> (and (<= (soff d2 k) p) (< p (+ (soff d2 k) (slen d2 k)))) (= (select d2 p) (select d1 (+ (soff d1 k) (- p (soff d2 k)))))) :pattern ((select d2 p))))))
; d1 is d0 with the 32-bit little-endian field at i set to v (nothing else changes)
(define-fun upd32 ((d0 (Array Int Int)) (d1 (Array Int Int)) (i Int) (v Int)) Bool
  (and (= (le32 d1 i) v)
       (<= 0 (select d1 i)) (<= (select d1 i) 255) (<= 0 (select d1 (+ i 1))) (<= (select d1 (+ i 1)) 255)
       (<= 0 (select d1 (+ i 2))) (<= (select d1 (+ i 2)) 255) (<= 0 (select d1 (+ i 3))) (<= (select d1 (+ i 3)) 255)
       (forall ((j Int)) (! (=> (or (< j i) (>= j (+ i 4))) (= (select d1 j) (select d0 j))) :pattern ((select d1 j))))
       ; consequences for the slot directory (stated so that terms over d1 create the terms over d0)
       (forall ((k Int)) (! (=> (and (<= 0 k) (or (<= (+ i 4) (+ 24 (* 8 k))) (>= i (+ 28 (* 8 k))))) (= (soff d1 k) (soff d0 k))) :pattern ((soff d1 k))))
       (forall ((k Int)) (! (=> (and (<= 0 k) (or (<= (+ i 4) (+ 28 (* 8 k))) (>= i (+ 32 (* 8 k))))) (= (ssz d1 k) (ssz d0 k))) :pattern ((ssz d1 k))))))
(define-fun s32 ((x Int)) Int (ite (>= x 0) x (+ x 4294967296)))
; d1 equals d0 outside the two 4-byte fields at a and b
(define-fun sameExcept2 ((d0 (Array Int Int)) (d1 (Array Int Int)) (a Int) (b Int)) Bool
  (forall ((j Int)) (! (=> (and (or (< j a) (>= j (+ a 4))) (or (< j b) (>= j (+ b 4)))) (= (select d1 j) (select d0 j))) :pattern ((select d1 j)))))
