; profile abort (C03): which inverse operation the rollback applied to which row / index (keyed by object reference)
;@ghost rbdel (Array Int Bool)
;@ghost apdel (Array Int Bool)
;@ghost updto (Array Int Int)
;@ghost idxdel (Array Int Int)
;@ghost idxupd (Array Int Bool)
;@ghost ixoid (Array Int Int)
;@ghost nrel Int
