; ---- C08 (c): framing of the log buffer and the log file (int mode) ----
;@ghost glog (Array Int Int)
;@ghost glen Int
; glog[0..glen) : the bytes handed to the disk manager's WriteLog so far (the log file)
(define-fun le32 ((d (Array Int Int)) (i Int)) Int
  (+ (select d i) (* 256 (select d (+ i 1))) (* 65536 (select d (+ i 2))) (* 16777216 (select d (+ i 3)))))
(define-fun s32 ((x Int)) Int (ite (>= x 0) x (+ x 4294967296)))
