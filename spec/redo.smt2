; ---- C02 / C01 / C20: ghost state for the recovery passes ----
;@ghost plsnR (Array Int Int)
;@ghost clean Bool
; plsnR[p] : LSN currently stamped on the in-memory page object p (what Page.GetLSN returns)
; clean    : every effect of the log that was replayed is on disk (no dirty frame holds redo/undo work)
;@ghost applied (Array Int Bool)
; applied[p] : a tuple-level change was (re-)applied to page object p by the recovery pass
;@ghost truncated Bool
; truncated : the log file has been emptied during this start-up
; C07/C09: index state at start-up. slEmpty: the (non-persistent) skip list indexes of existing tables are still
; empty; persStale: the persistent index kinds (B-tree, hash) are not attached to a valid on-disk state
;@ghost slEmpty Bool
;@ghost persStale Bool
; which page operation recovery applied last: opk (1 InsertTuple, 2 ApplyDelete, 3 MarkDelete, 4 RollbackDelete,
; 5 UpdateTuple), on which row id / tuple object, and how many operations were applied so far
;@ghost opk Int
;@ghost oprid Int
;@ghost optup Int
;@ghost nops Int
; the log on disk holds at least one numbered record written since its last truncation (keeps the LSN high-water mark)
;@ghost hwm Bool
;@ghost logdur Bool
;@ghost nlsnset Int
;@ghost nfinal Int
