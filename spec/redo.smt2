; ---- C02 / C01 / C20: ghost state for the recovery passes ----
;@ghost plsnR (Array Int Int)
;@ghost clean Bool
; plsnR[p] : LSN currently stamped on the in-memory page object p (what Page.GetLSN returns)
; clean    : every effect of the log that was replayed is on disk (no dirty frame holds redo/undo work)
;@ghost applied (Array Int Bool)
; applied[p] : a tuple-level change was (re-)applied to page object p by the recovery pass
;@ghost truncated Bool
; truncated : the log file has been emptied during this start-up
