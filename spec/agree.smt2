; profile agree (C07): which index operation was applied to which index object (keyed by object reference)
;@ghost idxins (Array Int Int)
;@ghost idxdel (Array Int Int)
;@ghost idxupd (Array Int Bool)
; which table the rows held by a rebuild were scanned from (planT: table id of a scan plan node; scanT: table id the last executed scan read)
;@ghost planT (Array Int Int)
;@ghost scanT Int
; wrote[b] = the B-tree index object b wrote its container state to its pages during this shutdown
;@ghost wrote (Array Int Bool)
; hash index header page: number of block pages and the page id of block k (uninterpreted; defined by the stubs of
; HashTableHeaderPage.NumBlocks / GetBlockPageID), and which pages were overwritten directly in the data file
(declare-fun hnb (Int) Int)
(declare-fun hblk (Int Int) Int)
;@ghost dwrote (Array Int Bool)
;@ghost ixoid (Array Int Int)
;@ghost npers Int
;@ghost nrec Int
