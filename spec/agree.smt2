; profile agree (C07): which index operation was applied to which index object (keyed by object reference)
;@ghost idxins (Array Int Int)
;@ghost idxdel (Array Int Int)
;@ghost idxupd (Array Int Bool)
