; profile race (C19): ghost lock state of the running goroutine
;@ghost mu (Array Int Bool)
;@ghost rmu (Array Int Int)
;@ghost wl (Array Int Bool)
;@ghost rl (Array Int Int)
(define-fun nolatch ((w (Array Int Bool)) (r (Array Int Int))) Bool
  (and (= w ((as const (Array Int Bool)) false)) (= r ((as const (Array Int Int)) 0))))
(define-fun rlok ((r (Array Int Int))) Bool (forall ((l Int)) (! (>= (select r l) 0) :pattern ((select r l)))))
