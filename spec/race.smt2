; profile race (C19): ghost lock state of the running goroutine
;@ghost mu (Array Int Bool)
;@ghost rmu (Array Int Int)
;@ghost wl (Array Int Bool)
;@ghost rl (Array Int Int)
