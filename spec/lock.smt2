; ---- C16: abstract views of the lock tables (int mode) ----
; A slice of transaction ids / row ids viewed as a set (membership) and as a duplicate-free sequence.
; Membership is stated over absolute positions of the backing array so that quantifier triggers are
; plain (select (select A arr) j) terms (no arithmetic inside a trigger).
(define-fun inTxns ((A (Array Int (Array Int Int))) (s Slice) (t Int)) Bool
  (exists ((j Int)) (! (and (<= (sl_off s) j) (< j (+ (sl_off s) (sl_len s))) (= (select (select A (sl_arr s)) j) t))
     :pattern ((select (select A (sl_arr s)) j)))))
(define-fun nodupTxns ((A (Array Int (Array Int Int))) (s Slice)) Bool
  (forall ((i Int) (j Int)) (! (=> (and (<= (sl_off s) i) (< i j) (< j (+ (sl_off s) (sl_len s))))
     (not (= (select (select A (sl_arr s)) i) (select (select A (sl_arr s)) j))))
     :pattern ((select (select A (sl_arr s)) i) (select (select A (sl_arr s)) j)))))
(define-fun inRIDs ((A (Array Int (Array Int S_page.RID))) (s Slice) (r S_page.RID)) Bool
  (exists ((j Int)) (! (and (<= (sl_off s) j) (< j (+ (sl_off s) (sl_len s))) (= (select (select A (sl_arr s)) j) r))
     :pattern ((select (select A (sl_arr s)) j)))))
(define-fun holdsS ((SD (Array S_page.RID Bool)) (SV (Array S_page.RID Slice)) (A (Array Int (Array Int Int))) (q S_page.RID) (u Int)) Bool
  (and (select SD q) (inTxns A (select SV q) u)))
(define-fun holdsX ((XD (Array S_page.RID Bool)) (XV (Array S_page.RID Int)) (q S_page.RID) (u Int)) Bool
  (and (select XD q) (= (select XV q) u)))
; representation invariant of the lock tables
(define-fun lmInv ((SD (Array S_page.RID Bool)) (SV (Array S_page.RID Slice)) (XD (Array S_page.RID Bool)) (XV (Array S_page.RID Int)) (A (Array Int (Array Int Int))) (al Int)) Bool
  (and
    ; every shared entry is a duplicate-free, allocated slice
    (forall ((q S_page.RID)) (! (=> (select SD q) (and (nodupTxns A (select SV q)) (> (sl_arr (select SV q)) 0) (< (sl_arr (select SV q)) al) (<= 0 (sl_off (select SV q))) (<= 0 (sl_len (select SV q))) (<= (sl_len (select SV q)) (sl_cap (select SV q)))))
       :pattern ((select SV q))))
    ; distinct rows own distinct backing arrays
    (forall ((q1 S_page.RID) (q2 S_page.RID)) (! (=> (and (select SD q1) (select SD q2) (not (= q1 q2))) (not (= (sl_arr (select SV q1)) (sl_arr (select SV q2)))))
       :pattern ((select SV q1) (select SV q2))))
    ; compatibility: an exclusive holder excludes every other holder
    (forall ((q S_page.RID) (j Int)) (! (=> (and (select XD q) (select SD q) (<= (sl_off (select SV q)) j) (< j (+ (sl_off (select SV q)) (sl_len (select SV q)))))
                                          (= (select (select A (sl_arr (select SV q))) j) (select XV q)))
       :pattern ((select (select A (sl_arr (select SV q))) j))))))
; r is among the first n elements of the slice
(define-fun inRIDsPrefix ((A (Array Int (Array Int S_page.RID))) (s Slice) (n Int) (r S_page.RID)) Bool
  (exists ((j Int)) (! (and (<= (sl_off s) j) (< j (+ (sl_off s) n)) (= (select (select A (sl_arr s)) j) r))
     :pattern ((select (select A (sl_arr s)) j)))))
; positional form of "no transaction other than t holds a shared lock on q"
(define-fun soleOrNone ((SD (Array S_page.RID Bool)) (SV (Array S_page.RID Slice)) (A (Array Int (Array Int Int))) (q S_page.RID) (t Int)) Bool
  (or (not (select SD q)) (= (sl_len (select SV q)) 0)
      (and (= (sl_len (select SV q)) 1) (= (select (select A (sl_arr (select SV q))) (sl_off (select SV q))) t))))
