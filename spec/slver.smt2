; profile slver (C17): update counters of skip list nodes. mutd[n]: node n was changed by the running operation;
; bumpd[n]: its update counter (the page LSN field) was incremented by the running operation
;@ghost mutd (Array Int Bool)
;@ghost bumpd (Array Int Bool)
(define-fun nopending ((m (Array Int Bool)) (b (Array Int Bool))) Bool
  (and (= m ((as const (Array Int Bool)) false)) (= b ((as const (Array Int Bool)) false))))
(define-fun allversioned ((m (Array Int Bool)) (b (Array Int Bool))) Bool
  (forall ((n Int)) (! (=> (select m n) (select b n)) :pattern ((select m n)))))
; re-validation after a latch release: number of validations and whether the last one failed
;@ghost nval Int
;@ghost vfail Bool
(declare-fun splitNF (Int) Int)
